#!/usr/bin/env python3
"""Developer loop (not used by registered checks): dev.py <group> <harness> [extra cargo-kani flags]
keeps a persistent scratch + target dir under /tmp/ferrous-verif-dev-<group>-<harness>."""
import sys, os, subprocess, time, shutil, re
VERIF = os.path.dirname(os.path.abspath(__file__))
sys.path.insert(0, VERIF)
from vlib import scratch, kanirun
import registry
g, hname = sys.argv[1], sys.argv[2]
extra = sys.argv[3:]
d = "/tmp/ferrous-verif-dev-%s-%s" % (g, hname)
os.makedirs(d, exist_ok=True)
root = os.path.join(d, "repo")
shutil.rmtree(root, ignore_errors=True)
scratch.copy_repo(d)
spec = registry.GROUPS[g]
scratch.rewrite_for_kani(root, spec.get("family", "vec"), spec.get("shrinks"), spec.get("overlays"), spec.get("subst"))
tdir = os.path.join(d, "t")
if not os.path.isdir(tdir) and os.path.isdir(kanirun.DEPS_CACHE):
    subprocess.run(["cp", "-a", kanirun.DEPS_CACHE, tdir])
hs = [h for h in registry.HARNESSES if h.name == hname]
memsafe = hs[0].memsafe if hs else False
cmd = ["cargo", "kani", "--lib", "-Z", "stubbing", "--harness", hname, "--target-dir", tdir] + ([] if memsafe else ["--no-memory-safety-checks"]) + extra
fs = (hs[0].fs_array if hs else None) or spec.get("fs_array")
if os.environ.get("DEV_FS"):
    fs = int(os.environ["DEV_FS"])
if "--cbmc-args" not in extra and fs:
    cmd += ["-Z", "unstable-options", "--cbmc-args", "--max-field-sensitivity-array-size", str(fs)]
t0 = time.time()
to = int(os.environ.get("DEV_TIMEOUT", "1200"))
logp = os.path.join(d, "log")
with open(logp, "w") as lf:
    p = subprocess.Popen(cmd, cwd=root, env=scratch.ENV, stdout=lf, stderr=subprocess.STDOUT, preexec_fn=kanirun._limits)
    try:
        p.wait(timeout=to)
    except subprocess.TimeoutExpired:
        os.killpg(p.pid, 9)
        print("TIMEOUT after", to)
txt = open(logp, errors="replace").read()
i = txt.find("SUMMARY:")
if i >= 0:
    print(txt[i:][:3000])
else:
    errs = re.findall(r"(error(?:\[E\d+\])?: .*(?:\n.*){0,12})", txt)
    print("\n".join(errs[:6]) if errs else txt[-2500:])
print("wall %.0fs  log %s" % (time.time() - t0, logp))
