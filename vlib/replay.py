"""Replay of counterexamples before they are reported."""
import os, re, subprocess, shutil, json, time
from . import scratch, kanirun

VERIF = os.path.dirname(os.path.dirname(os.path.abspath(__file__)))
REPLAYS = os.path.join(VERIF, "replays")


def replay_kani(r, prepared, work, log):
    """Re-run the failed harness with concrete playback, save the generated unit test, and (for
    harnesses without environment stubs) execute it natively on an UN-rewritten copy of the
    working tree with the real std containers.  Returns (path, reproduced, how):
    reproduced True / False / None (None = native replay not applicable; solver verdict stands)."""
    os.makedirs(REPLAYS, exist_ok=True)
    h = r.h
    path = os.path.join(REPLAYS, "%s.json" % h.name)
    rec = {"harness": h.name, "properties": h.props, "failed_checks": r.failed_checks, "desc": h.desc,
           "bounds": h.bounds, "time": time.strftime("%Y-%m-%dT%H:%M:%S")}
    test_src = None
    if prepared:
        root, gd = prepared
        h2 = kanirun.Harness(h.name, h.group, h.props, timeout=h.timeout * 2 + 120, memsafe=h.memsafe,
                             unwind=h.unwind, extra=h.extra, fs_array=h.fs_array)
        r2 = kanirun.run_harness(root, h2, gd, extra_flags=["-Z", "concrete-playback", "--concrete-playback=print"])
        m = re.search(r"```\n(.*?)```", r2.log, re.S)
        if m:
            test_src = m.group(1)
            rec["concrete_playback_test"] = test_src
    reproduced, how = None, "no native replay (harness uses environment stubs or playback test unavailable)"
    if test_src and h.native_replay:
        try:
            reproduced, how = native_replay(h, test_src, work, log)
        except Exception as ex:
            reproduced, how = None, "native replay machinery error: %r" % ex
    rec["reproduced_natively"] = reproduced
    rec["replay_how"] = how
    with open(path, "w") as f:
        json.dump(rec, f, indent=1)
    return path, reproduced, how


def native_replay(h, test_src, work, log):
    import registry
    spec = registry.GROUPS[h.group]
    d = os.path.join(work, "replay_" + h.name)
    os.makedirs(d, exist_ok=True)
    root = scratch.copy_repo(d)
    # overlays are copied so that the generated test can be appended without touching /verif
    ovl_dir = os.path.join(d, "ovl")
    os.makedirs(ovl_dir, exist_ok=True)
    overlays = {}
    for rel, ovl in (spec.get("overlays") or {}).items():
        dst = os.path.join(ovl_dir, ovl)
        shutil.copy(os.path.join(VERIF, "kani", ovl), dst)
        overlays[rel] = dst
    # real containers (family std), real constants unless the harness cannot exist without the shrink
    scratch.rewrite_for_kani(root, "std", spec.get("replay_shrinks"), overlays, spec.get("subst"))
    # find the overlay that defines the harness and append the test there
    target = None
    for rel, dst in overlays.items():
        if re.search(r"fn\s+%s\s*\(" % re.escape(h.name), open(dst).read()):
            target = dst
    if not target:
        return None, "harness source not found for native replay"
    m = re.search(r"fn\s+(kani_concrete_playback_\w+)", test_src)
    if not m:
        return None, "no playback test name"
    tname = m.group(1)
    with open(target, "a") as f:
        f.write("\n" + test_src + "\n")
    outs = {}
    for prof in ("dev", "release"):
        cmd = ["cargo", "kani", "playback", "-Z", "concrete-playback", "--lib", "--", tname]
        env = dict(scratch.ENV)
        env["CARGO_TARGET_DIR"] = os.path.join(d, "target_" + prof)
        if prof == "release":
            # `cargo kani playback` has no --release: the release profile's semantics (optimised,
            # no overflow checks, no debug assertions) are imposed on the dev profile instead
            env.update({"CARGO_PROFILE_DEV_OPT_LEVEL": "3", "CARGO_PROFILE_DEV_OVERFLOW_CHECKS": "false",
                        "CARGO_PROFILE_DEV_DEBUG_ASSERTIONS": "false"})
        p = subprocess.run(cmd, cwd=root, env=env, stdout=subprocess.PIPE, stderr=subprocess.STDOUT,
                           text=True, timeout=1800)
        out = p.stdout
        if "test result: FAILED" in out or "panicked at" in out:
            outs[prof] = "fails"
        elif "test result: ok. 1 passed" in out:
            outs[prof] = "passes"
        else:
            outs[prof] = "error"
            log("   native replay (%s) build/run problem: %s" % (prof, out[-400:].replace("\n", " | ")))
        shutil.rmtree(env["CARGO_TARGET_DIR"], ignore_errors=True)
    how = "native playback on un-rewritten copy with std containers: dev=%s release=%s" % (outs.get("dev"), outs.get("release"))
    if "fails" in outs.values():
        return True, how
    if all(v == "passes" for v in outs.values()):
        return False, how
    return None, how


def save_mir_witness(m, pid):
    os.makedirs(REPLAYS, exist_ok=True)
    path = os.path.join(REPLAYS, "%s.json" % m.q.name)
    with open(path, "w") as f:
        json.dump({"query": m.q.name, "property": pid, "witnesses": m.unlisted, "desc": m.q.desc}, f, indent=1)
    return path
