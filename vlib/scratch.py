"""Scratch copies of /repo's *current working tree*, rewritten for Kani (Engine K) or left
untouched for the MIR dump (Engine M).  Nothing here ever writes to /repo."""
import os, re, shutil, subprocess, tempfile, glob

REPO = os.environ.get("VERIF_REPO", "/repo")
VERIF = os.path.dirname(os.path.dirname(os.path.abspath(__file__)))
SCRATCH_ROOT = os.environ.get("VERIF_SCRATCH_ROOT", "/tmp")
CACHE = os.path.join(VERIF, ".cache")

ENV = dict(os.environ)
ENV.update({"CARGO_NET_OFFLINE": "true", "CARGO_TERM_COLOR": "never"})
# the conda warning on stderr of every subprocess comes from the shell profile only


def mk_scratch(tag):
    d = tempfile.mkdtemp(prefix="ferrous-verif-%s-" % tag, dir=SCRATCH_ROOT)
    return d


def rm_scratch(d):
    shutil.rmtree(d, ignore_errors=True)


def copy_repo(dst):
    """rsync the working tree (not .git, not target) to dst/repo"""
    out = os.path.join(dst, "repo")
    os.makedirs(out, exist_ok=True)
    subprocess.run(
        ["rsync", "-a", "--delete", "--exclude", "/target", "--exclude", "/.git",
         "--exclude", "/docs", "--exclude", "/tests", "--exclude", "/examples",
         REPO + "/", out + "/"], check=True)
    return out


def src_files(root):
    res = []
    for p in glob.glob(os.path.join(root, "src", "**", "*.rs"), recursive=True):
        rel = os.path.relpath(p, root)
        if rel.startswith("src/bin/") or rel in ("src/main.rs", "src/main_replica.rs"):
            continue
        res.append(p)
    return sorted(res)


def rewrite_for_kani(root, family="vec", shrinks=None, overlays=None, extra_subst=None):
    """Rewrite the scratch copy for Engine K.
    family   : container model family ("vec" | "inline" | "std" = no rewrite)
    shrinks  : dict const-name -> value, e.g. {"MAX_LEVEL": 4, "SHARDS_PER_DATABASE": 2}
    overlays : dict  relative source file -> overlay file under /verif/kani
    Returns a list of strings describing every rewrite applied (goes to the evidence file)."""
    notes = []
    shrinks = shrinks or {}
    overlays = overlays or {}
    if family != "std":
        n = 0
        for p in src_files(root):
            s = open(p).read()
            t = s.replace("std::collections::", "crate::verif_std::")
            if t != s:
                n += s.count("std::collections::")
                open(p, "w").write(t)
        shutil.copy(os.path.join(VERIF, "kani", "verif_std_%s.rs" % family),
                    os.path.join(root, "src", "verif_std.rs"))
        lib = os.path.join(root, "src", "lib.rs")
        s = open(lib).read()
        s += "\npub mod verif_std;\n"
        open(lib, "w").write(s)
        notes.append("std::collections::{HashMap,HashSet,BTreeMap,VecDeque} -> crate::verif_std (%s family, %d import sites)" % (family, n))
    for const, val in shrinks.items():
        hit = 0
        for p in src_files(root):
            s = open(p).read()
            t, k = re.subn(r"(const\s+%s\s*:\s*usize\s*=\s*)\d+(\s*;)" % re.escape(const),
                           r"\g<1>%d\g<2>" % val, s)
            if k:
                hit += k
                open(p, "w").write(t)
        if hit != 1:
            raise RuntimeError("shrink of const %s matched %d sites (expected 1)" % (const, hit))
        notes.append("const %s shrunk to %d" % (const, val))
    for pat, rep, fname in (extra_subst or []):
        p = os.path.join(root, fname)
        s = open(p).read()
        t, k = re.subn(pat, rep, s)
        if k == 0:
            raise RuntimeError("substitution %r matched nothing in %s" % (pat, fname))
        open(p, "w").write(t)
        notes.append("subst in %s: %s -> %s (%d sites)" % (fname, pat, rep, k))
    for rel, ovl in overlays.items():
        p = os.path.join(root, rel)
        if not os.path.exists(p):
            raise RuntimeError("overlay target %s does not exist in the working tree" % rel)
        ovl_abs = ovl if os.path.isabs(ovl) else os.path.join(VERIF, "kani", ovl)
        modname = "verif_" + os.path.splitext(os.path.basename(ovl))[0]
        with open(p, "a") as f:
            f.write('\n#[cfg(kani)]\n#[path = "%s"]\nmod %s;\n' % (ovl_abs, modname))
        notes.append("overlay %s appended to %s as child module (no source line changed)" % (os.path.basename(ovl), rel))
    # common helper module available to all overlays
    lib = os.path.join(root, "src", "lib.rs")
    libsrc = open(lib).read()
    if "feature(allocator_api)" not in libsrc:
        # the Vec::push stub in verif_common names Vec's allocator parameter (cfg(kani) only)
        open(lib, "w").write("#![cfg_attr(kani, feature(allocator_api))]\n" + libsrc)
    with open(lib, "a") as f:
        f.write('\n#[cfg(kani)]\n#[path = "%s"]\npub mod verif_common;\n' % os.path.join(VERIF, "kani", "common.rs"))
    # offline + empty workspace so that cargo does not look upwards
    os.makedirs(os.path.join(root, ".cargo"), exist_ok=True)
    with open(os.path.join(root, ".cargo", "config.toml"), "w") as f:
        f.write("[net]\noffline = true\n")
    return notes
