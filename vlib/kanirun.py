"""Engine K: run Kani harnesses on a rewritten scratch copy of /repo's working tree."""
import os, re, shutil, subprocess, time, json, hashlib, resource
from concurrent.futures import ThreadPoolExecutor
from . import scratch

KANI_FLAGS_BASE = ["--lib", "-Z", "stubbing"]
DEPS_CACHE = os.path.join(scratch.CACHE, "kani-target-base")
MEM_LIMIT_KB = int(os.environ.get("VERIF_MEM_KB", str(14 * 1024 * 1024)))
MAX_PAR = int(os.environ.get("VERIF_JOBS", "12"))
FS_ARRAY = int(os.environ.get("VERIF_FS_ARRAY", "4096"))


class Harness:
    def __init__(self, name, group, props, tier="quick", timeout=600, memsafe=False, desc="",
                 encodes=(), bounds="", stubs=(), expect="hold", unwind=None, extra=(),
                 native_replay=True, assumptions=(), fs_array=None, mem_gb=None):
        self.mem_gb = mem_gb        # address-space limit for this harness (default VERIF_MEM_KB = 14 GB)
        self.fs_array = fs_array     # --max-field-sensitivity-array-size (None = CBMC default 64)
        self.name = name            # harness fn name (unique suffix)
        self.group = group
        self.props = props          # property ids this harness serves
        self.tier = tier
        self.timeout = timeout
        self.memsafe = memsafe      # keep memory-safety checks on (unsafe code under test)
        self.desc = desc
        self.encodes = list(encodes)
        self.bounds = bounds
        self.stubs = list(stubs)
        self.expect = expect        # "hold" | "kf:<finding-id>"
        self.unwind = unwind
        self.extra = list(extra)
        self.native_replay = native_replay
        self.assumptions = list(assumptions)


class Result:
    def __init__(self, h):
        self.h = h
        self.status = "inconclusive"   # held | failed | inconclusive
        self.reason = ""
        self.checks_total = 0
        self.checks_failed = 0
        self.covers_total = 0
        self.covers_sat = 0
        self.failed_checks = []       # list of dict(desc, file, line, func)
        self.verif_time = 0.0
        self.wall = 0.0
        self.log = ""
        self.stubs_seen = []
        self.vccs = None
        self.solver_time = None


def _limits():
    resource.setrlimit(resource.RLIMIT_AS, (MEM_LIMIT_KB * 1024, MEM_LIMIT_KB * 1024))
    os.setsid()


def _limits_big():
    # concrete playback: kani-driver itself post-processes the whole trace
    resource.setrlimit(resource.RLIMIT_AS, (3 * MEM_LIMIT_KB * 1024, 3 * MEM_LIMIT_KB * 1024))
    os.setsid()


def ensure_deps_cache(root, log=None):
    """Compile the dependencies once into a cache target dir (cargo re-checks fingerprints on
    every use, so a stale cache only costs time, never correctness)."""
    if os.path.isdir(DEPS_CACHE) and os.path.exists(os.path.join(DEPS_CACHE, ".ok")):
        return
    os.makedirs(scratch.CACHE, exist_ok=True)
    tmp = DEPS_CACHE + ".tmp%d" % os.getpid()
    shutil.rmtree(tmp, ignore_errors=True)
    p = subprocess.run(["cargo", "kani"] + KANI_FLAGS_BASE + ["--only-codegen", "--target-dir", tmp],
                       cwd=root, env=scratch.ENV, stdout=subprocess.PIPE, stderr=subprocess.STDOUT, text=True)
    if p.returncode != 0:
        # do not keep a broken cache; callers build from scratch in their own target dir
        shutil.rmtree(tmp, ignore_errors=True)
        if log:
            log("deps cache build failed (rc=%d); continuing without cache\n%s" % (p.returncode, p.stdout[-2000:]))
        return
    open(os.path.join(tmp, ".ok"), "w").write("ok")
    if os.path.isdir(DEPS_CACHE):
        shutil.rmtree(tmp, ignore_errors=True)
    else:
        os.rename(tmp, DEPS_CACHE)


FAILED_RE = re.compile(r"Failed Checks: (.*)\n File: \"(.*?)\", line (\d+), in (.*)")


def parse_log(text, r):
    m = re.search(r"\*\* (\d+) of (\d+) failed", text)
    if m:
        r.checks_failed = int(m.group(1))
        r.checks_total = int(m.group(2))
    m = re.search(r"\*\* (\d+) of (\d+) cover properties satisfied", text)
    if m:
        r.covers_sat = int(m.group(1))
        r.covers_total = int(m.group(2))
    m = re.search(r"Verification Time: ([0-9.]+)s", text)
    if m:
        r.verif_time = float(m.group(1))
    m = re.search(r"Generated (\d+) VCC\(s\), (\d+) remaining after simplification", text)
    if m:
        r.vccs = (int(m.group(1)), int(m.group(2)))
    st = re.findall(r"Runtime Solver: ([0-9.e+-]+)s", text)
    if st:
        r.solver_time = sum(float(x) for x in st)
    r.stubs_seen = re.findall(r"- Stub: (.*)", text)
    for fm in FAILED_RE.finditer(text):
        r.failed_checks.append(dict(desc=fm.group(1).strip(), file=fm.group(2), line=int(fm.group(3)),
                                    func=fm.group(4).strip()))
    # failed checks without location
    for fm in re.finditer(r"Failed Checks: (.*)\n(?! File:)", text):
        r.failed_checks.append(dict(desc=fm.group(1).strip(), file="", line=0, func=""))
    if "VERIFICATION:- SUCCESSFUL" in text:
        if r.covers_total and r.covers_sat < r.covers_total:
            r.status = "inconclusive"
            r.reason = "vacuity guard: %d of %d cover properties unsatisfied/unreachable" % (
                r.covers_total - r.covers_sat, r.covers_total)
        elif not re.search(r"Complete - 1 successfully verified harnesses, 0 failures, 1 total", text):
            r.status = "inconclusive"
            r.reason = "harness summary line missing or not exactly one harness matched"
        else:
            r.status = "held"
    elif "VERIFICATION:- FAILED" in text:
        unw = [c for c in r.failed_checks if "unwinding assertion" in c["desc"]]
        if "Status: ERROR" in text or "CBMC failed" in text or "out of memory" in text.lower():
            r.status = "inconclusive"
            r.reason = "CBMC error / out of memory"
        elif unw:
            r.status = "inconclusive"
            r.reason = "unwinding bound too small: " + "; ".join(sorted(set(c["func"] for c in unw)))
        elif not r.failed_checks:
            r.status = "inconclusive"
            r.reason = "FAILED without a parsable failed check"
        else:
            r.status = "failed"
    else:
        r.status = "inconclusive"
        tail = text[-600:].replace("\n", " | ")
        r.reason = "no verification verdict (compile error, ICE, timeout or OOM): " + tail


# Memory-aware admission: the machine has no swap, so the sum of the *expected* peaks of the
# harnesses running at once stays below MEM_BUDGET_GB (a harness with an explicit mem_gb counts
# with that value, every other one with 4 GB - measured winners need 0.8-3 GB).
import threading
MEM_BUDGET_GB = int(os.environ.get("VERIF_MEM_BUDGET_GB", "52"))
_mem_cv = threading.Condition()
_mem_used = [0]


def _weight(h):
    return min(MEM_BUDGET_GB, int(getattr(h, "mem_gb", None) or 4))


def run_harness(root, h, workdir, extra_flags=()):
    w = _weight(h)
    with _mem_cv:
        while _mem_used[0] + w > MEM_BUDGET_GB and _mem_used[0] > 0:
            _mem_cv.wait()
        _mem_used[0] += w
    try:
        return _run_harness(root, h, workdir, extra_flags)
    finally:
        with _mem_cv:
            _mem_used[0] -= w
            _mem_cv.notify_all()


def _run_harness(root, h, workdir, extra_flags=()):
    r = Result(h)
    tdir = os.path.join(workdir, "t_" + h.name)
    if os.path.isdir(DEPS_CACHE) and not os.path.isdir(tdir):
        subprocess.run(["cp", "-a", DEPS_CACHE, tdir], check=False)
    cmd = ["cargo", "kani"] + KANI_FLAGS_BASE + ["--harness", h.name, "--target-dir", tdir]
    if not h.memsafe:
        cmd.append("--no-memory-safety-checks")
    if h.unwind:
        cmd += ["--default-unwind", str(h.unwind)]
    cmd += list(h.extra) + list(extra_flags)
    # MUST be last: heap objects up to FS_ARRAY bytes stay field-sensitive in CBMC's symbolic
    # execution, so data written to and read back from the heap is constant-folded (measured:
    # engine APPEND harness OOM at 14 GB without it, 703 VCCs / 12 s with it)
    if h.fs_array:
        cmd += ["-Z", "unstable-options", "--cbmc-args", "--max-field-sensitivity-array-size", str(h.fs_array)]
    logp = os.path.join(workdir, h.name + ".log")
    t0 = time.time()
    with open(logp, "w") as lf:
        try:
            def _lim(h=h, big=("--concrete-playback=print" in cmd)):
                kb = (h.mem_gb * 1024 * 1024) if getattr(h, "mem_gb", None) else MEM_LIMIT_KB
                if big:
                    kb *= 3
                resource.setrlimit(resource.RLIMIT_AS, (kb * 1024, kb * 1024))
                os.setsid()
            p = subprocess.Popen(cmd, cwd=root, env=scratch.ENV, stdout=lf, stderr=subprocess.STDOUT, preexec_fn=_lim)
            try:
                p.wait(timeout=h.timeout)
            except subprocess.TimeoutExpired:
                try:
                    os.killpg(p.pid, 9)
                except Exception:
                    pass
                p.wait()
                r.wall = time.time() - t0
                r.status = "inconclusive"
                r.reason = "timeout after %ds" % h.timeout
                r.log = open(logp, errors="replace").read()
                shutil.rmtree(tdir, ignore_errors=True)
                return r
        except Exception as ex:
            r.reason = "could not start cargo kani: %r" % ex
            return r
    r.wall = time.time() - t0
    r.log = open(logp, errors="replace").read()
    parse_log(r.log, r)
    shutil.rmtree(tdir, ignore_errors=True)
    return r


def run_many(root, harnesses, workdir, jobs=None, progress=None):
    jobs = jobs or MAX_PAR
    results = []
    # longest first
    hs = sorted(harnesses, key=lambda h: -h.timeout)
    with ThreadPoolExecutor(max_workers=jobs) as ex:
        futs = [ex.submit(run_harness, root, h, workdir) for h in hs]
        for f in futs:
            r = f.result()
            if progress:
                progress(r)
            results.append(r)
    return results
