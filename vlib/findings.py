"""known_findings.json: committed, never written at run time.
Entry kinds:
  {"id":..., "property":"Cxx", "status":"known", "what":"<specific failing input / call site>",
   "kani": {"harness": "<name>", "checks": [{"desc": "<substring>", "func": "<substring>"}...]}}
        -> suppresses a failure of exactly that harness whose failed checks are ALL covered by
           the listed (desc, func) patterns; any other failed check of the harness is a violation.
  {"id":..., "property":"Cxx", "status":"known", "what":..., "mir": {"query": "<name>", "witness_key": "<key>"}}
        -> suppresses exactly that witness of that MIR query.
  {"id":..., "property":"Cxx", "status":"fixed", "line": "fixed: property=Cxx <commit> <what failed>"}
        -> suppresses nothing."""
import json, os

PATH = os.path.join(os.path.dirname(os.path.dirname(os.path.abspath(__file__))), "known_findings.json")


def load():
    if not os.path.exists(PATH):
        return {"findings": []}
    return json.load(open(PATH))


def _get(kf, fid):
    for f in kf["findings"]:
        if f.get("id") == fid:
            return f
    return None


def what(kf, fid):
    f = _get(kf, fid)
    return f.get("what", fid) if f else fid


def matches(kf, fid, pid, r):
    f = _get(kf, fid)
    if not f or f.get("status") != "known" or pid not in f.get("property", "").split(","):
        return False
    k = f.get("kani")
    if not k or k.get("harness") != r.h.name:
        return False
    pats = k.get("checks", [])
    for c in r.failed_checks:
        ok = False
        for p in pats:
            if p.get("desc", "") in c["desc"] and p.get("func", "") in c["func"]:
                ok = True
                break
        if not ok:
            return False
    return True


def match_mir(kf, pid, qname, witness):
    for f in kf["findings"]:
        if f.get("status") != "known" or pid not in f.get("property", "").split(","):
            continue
        m = f.get("mir")
        if m and m.get("query") == qname and m.get("witness_key") == witness.get("key"):
            return f["id"]
    return None
