"""Evidence writer: everything in the file is measured by the run that writes it."""
import json, os

VERIF = os.path.dirname(os.path.dirname(os.path.abspath(__file__)))


def write(pid, tier, seed, kres, mres, notes_by_group, nviol, known_ids, inconcl, wall):
    obligations = sum(r.checks_total for r in kres) + sum(m.obligations for m in mres)
    discharged = sum(r.checks_total - r.checks_failed for r in kres if r.status in ("held", "failed")) \
        + sum(m.discharged for m in mres)
    samples = []
    functions = set()
    stubs = set()
    assumptions = set()
    for r in kres:
        h = r.h
        samples.append({
            "engine": "K", "harness": h.name, "status": r.status, "what": h.desc, "bounds": h.bounds,
            "expect": h.expect, "cbmc_checks": r.checks_total, "failed_checks": r.checks_failed,
            "cover_satisfied": "%d/%d" % (r.covers_sat, r.covers_total),
            "verification_time_s": r.verif_time, "wall_s": round(r.wall, 1),
            "vccs": r.vccs, "reason": r.reason,
            "failed": [{"desc": c["desc"], "func": c["func"]} for c in r.failed_checks[:6]],
        })
        functions.update(h.encodes)
        stubs.update(h.stubs)
        stubs.update("kani::stub " + s for s in r.stubs_seen)
        assumptions.update(h.assumptions)
    for m in mres:
        samples.append({
            "engine": "M", "query": m.q.name, "status": m.status, "what": m.q.desc,
            "functions": m.functions, "smt_queries": m.smt_queries, "solver_time_s": round(m.solver_time, 3),
            "obligations": m.obligations, "discharged": m.discharged, "details": m.details[:12],
            "witnesses": [w.get("what") for w in m.witnesses[:8]], "reason": m.reason,
        })
        functions.update(m.functions)
        assumptions.update(m.q.assumptions)
    for g, notes in notes_by_group.items():
        for n in notes:
            assumptions.add("scratch rewrite [%s]: %s" % (g, n))
    held = sum(1 for r in kres if r.status == "held") + sum(1 for m in mres if m.status == "held")
    ev = {
        "property_id": pid,
        "tier": tier,
        "seed": seed,
        "level": "model_checking",
        "coverage": {
            "evaluations": len(kres) + sum(m.smt_queries for m in mres),
            "distinct_nontrivial": max(held, 0),
            "rule": "one evaluation = one solver-decided harness (Kani/CBMC, all inputs within the stated bound) or one SMT query of the MIR path encoder; non-trivial = verdict 'held' with its vacuity witness (kani::cover / path-set non-empty) satisfied",
            "obligations": obligations,
            "discharged": discharged,
            "samples": samples,
            "functions_encoded": sorted(functions),
            "stubs": sorted(stubs),
            "queries": {"kani_harnesses": len(kres), "mir_smt_queries": sum(m.smt_queries for m in mres)},
            "solver_time_s": round(sum(r.verif_time for r in kres) + sum(m.solver_time for m in mres), 2),
            "known_findings_reported": known_ids,
            "inconclusive": [{"name": n, "reason": w[:300]} for n, w in inconcl],
            "exhaustive": False,
            "explanation": "bounded: every verdict holds for all inputs inside the per-harness bound written in samples[].bounds and says nothing outside it",
        },
        "assumptions": sorted(assumptions),
        "wall_s": round(wall, 1),
        "violations": nviol,
    }
    os.makedirs(os.path.join(VERIF, "evidence"), exist_ok=True)
    with open(os.path.join(VERIF, "evidence", pid + ".json"), "w") as f:
        json.dump(ev, f, indent=1)
