#!/usr/bin/env python3-vt
"""Runs Engine M queries (needs z3: executed with python3-vt).
usage: runner.py <mir.txt> <queries.json> <out.json> <smt2dir>"""
import sys, os, json, time, traceback
sys.path.insert(0, os.path.dirname(os.path.dirname(os.path.abspath(__file__))))
from mir import parse, queries


def main():
    mirp, qp, outp, smtdir = sys.argv[1:5]
    t0 = time.time()
    funcs, problems = parse.parse_mir(mirp)
    res = {"parse": {"functions": len(funcs), "blocks": sum(len(f.blocks) for f in funcs.values()),
                     "problems": [list(p) for p in problems[:20]], "seconds": round(time.time() - t0, 2)},
           "results": {}}
    qs = json.load(open(qp))
    os.makedirs(smtdir, exist_ok=True)
    for q in qs:
        ctx = queries.Ctx(funcs)
        t1 = time.time()
        try:
            if problems:
                r = dict(status="inconclusive", reason="MIR parser self-check failed: %d unparsed blocks" % len(problems))
            else:
                r = queries.KINDS[q["kind"]](ctx, q["params"])
        except Exception as ex:
            r = dict(status="inconclusive", reason="query raised %r: %s" % (ex, traceback.format_exc()[-600:]))
        r.setdefault("witnesses", [])
        r.setdefault("obligations", 0)
        r.setdefault("discharged", 0)
        r.setdefault("functions", [])
        r.setdefault("details", [])
        r.setdefault("reason", "")
        r["smt_queries"] = ctx.smt
        r["solver_time"] = ctx.solver_time
        r["wall"] = time.time() - t1
        for i, (txt, ans) in enumerate(ctx.smt2_dumps):
            with open(os.path.join(smtdir, "%s_%03d.smt2" % (q["name"], i)), "w") as f:
                f.write("; expected: %s\n(set-logic ALL)\n" % ans)
                f.write(txt)
        res["results"][q["name"]] = r
    json.dump(res, open(outp, "w"), indent=1)


if __name__ == "__main__":
    main()
