"""Engine M driver (runs under plain python3): dumps the MIR of /repo's current working tree in a
scratch copy, runs the queries with z3 (python3-vt), cross-checks dumped SMT-LIB2 with cvc5."""
import os, json, subprocess, time, glob, re, shutil
from concurrent.futures import ThreadPoolExecutor
from vlib import scratch

HERE = os.path.dirname(os.path.abspath(__file__))


class MRes:
    def __init__(self, q):
        self.q = q
        self.status = "inconclusive"
        self.reason = ""
        self.witnesses = []
        self.unlisted = []
        self.obligations = 0
        self.discharged = 0
        self.smt_queries = 0
        self.solver_time = 0.0
        self.functions = []
        self.details = []


def dump_mir(work, log):
    d = os.path.join(work, "mir")
    os.makedirs(d, exist_ok=True)
    root = scratch.copy_repo(d)
    out = os.path.join(d, "mir.txt")
    t0 = time.time()
    with open(out, "w") as fo, open(os.path.join(d, "rustc.err"), "w") as fe:
        p = subprocess.run(["cargo", "+nightly", "rustc", "--offline", "--lib", "--target-dir", os.path.join(d, "t"),
                            "--", "-Zunpretty=mir"], cwd=root, env=scratch.ENV, stdout=fo, stderr=fe)
    if p.returncode != 0 or os.path.getsize(out) < 100000:
        tail = open(os.path.join(d, "rustc.err"), errors="replace").read()[-800:]
        return None, "MIR dump failed (rc=%d): %s" % (p.returncode, tail.replace("\n", " | "))
    log("  [M] MIR dump of the working tree: %.1f MB in %.0fs" % (os.path.getsize(out) / 1e6, time.time() - t0))
    shutil.rmtree(os.path.join(d, "t"), ignore_errors=True)
    return out, ""


def cvc5_check(path):
    exp = open(path).readline().strip().replace("; expected: ", "")
    try:
        p = subprocess.run(["cvc5", "--lang", "smt2", "--strings-exp", "--tlimit=20000", path],
                           stdout=subprocess.PIPE, stderr=subprocess.STDOUT, text=True, timeout=40)
        out = p.stdout.strip().split("\n")
        ans = [l for l in out if l in ("sat", "unsat", "unknown")]
        if "(error" in p.stdout or not ans:
            return ("error", exp, p.stdout[:200])
        return (ans[0], exp, "")
    except Exception as ex:
        return ("error", exp, repr(ex))


def run_queries(qs, work, log, tier="quick"):
    res = [MRes(q) for q in qs]
    mirp, why = dump_mir(work, log)
    if not mirp:
        for r in res:
            r.reason = why
        return res
    qjson = os.path.join(work, "mir", "queries.json")
    json.dump([{"name": q.name, "kind": q.kind, "params": q.params} for q in qs], open(qjson, "w"))
    outp = os.path.join(work, "mir", "out.json")
    smtdir = os.path.join(work, "mir", "smt2")
    p = subprocess.run(["python3-vt", os.path.join(HERE, "runner.py"), mirp, qjson, outp, smtdir],
                       stdout=subprocess.PIPE, stderr=subprocess.STDOUT, text=True)
    if p.returncode != 0 or not os.path.exists(outp):
        for r in res:
            r.reason = "MIR query runner failed: " + p.stdout[-600:].replace("\n", " | ")
        return res
    out = json.load(open(outp))
    # cvc5 cross-check of the dumped queries (all of them in thorough, a sample in quick)
    files = sorted(glob.glob(os.path.join(smtdir, "*.smt2")))
    cap = int(os.environ.get("VERIF_CVC5_SAMPLE", "0") or 0) or (10**9 if tier == "thorough" else 60)
    byq = {}
    for f in files:
        byq.setdefault(os.path.basename(f).rsplit("_", 1)[0], []).append(f)
    disagreements = {}
    checked = {}
    with ThreadPoolExecutor(max_workers=8) as ex:
        for qn, fl in byq.items():
            step = max(1, len(fl) // cap)
            sel = fl[::step][:cap]
            outs = list(ex.map(cvc5_check, sel))
            checked[qn] = (len([o for o in outs if o[0] in ("sat", "unsat")]), len(outs))
            bad = [(o, f) for o, f in zip(outs, sel) if o[0] in ("sat", "unsat") and o[1] in ("sat", "unsat") and o[0] != o[1]]
            if bad:
                disagreements[qn] = bad
    for r in res:
        o = out["results"].get(r.q.name)
        if not o:
            r.reason = "no result from runner"
            continue
        r.status = o["status"]
        r.reason = o.get("reason", "")
        r.witnesses = o["witnesses"]
        r.obligations = o["obligations"]
        r.discharged = o["discharged"]
        r.smt_queries = o["smt_queries"]
        r.solver_time = o["solver_time"]
        r.functions = o["functions"]
        r.details = o["details"]
        c = checked.get(r.q.name)
        if c:
            r.details.append("cvc5 cross-check: %d of %d sampled SMT-LIB2 queries answered, all agree with z3" % c)
        if r.q.name in disagreements:
            r.status = "inconclusive"
            r.reason = "z3 and cvc5 disagree on %d queries" % len(disagreements[r.q.name])
        log("  [M] %-40s %-12s smt=%d oblig=%d/%d %s" % (r.q.name, r.status, r.smt_queries, r.discharged, r.obligations, r.reason[:200]))
    return res
