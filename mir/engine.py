def run_queries(qs, work, log):
    return []
