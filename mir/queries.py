"""Engine M query kinds.  Each returns a dict:
  status: held | failed | inconclusive ; witnesses: [ {key, what} ] ; obligations / discharged ;
  smt_queries ; details (human-readable list of what was discharged) ; functions"""
import re, time
import z3
from . import sym


def norm_callee(c):
    c = re.sub(r"\{closure@[^}]*\}", "{closure}", c)
    # strip generic argument lists (nested)
    out, depth, i = [], 0, 0
    while i < len(c):
        if c.startswith("::<", i):
            depth += 1
            i += 3
            continue
        ch = c[i]
        if depth > 0:
            if ch == "<":
                depth += 1
            elif ch == ">":
                depth -= 1
            i += 1
            continue
        out.append(ch)
        i += 1
    return "".join(out).strip()


def short_fn(name):
    return re.sub(r"\{closure#\d+\}", "{closure}", name.split(">::")[-1])


def find_fn(funcs, pattern):
    c = [f for n, f in funcs.items() if re.search(pattern, n)]
    return c


def closure_fn(funcs, loc):
    c = [f for f in funcs.values() if f.args and ("{closure@%s}" % loc) in (f.locals.get(f.args[0]) or "")]
    return c[0] if len(c) == 1 else None


class Ctx:
    def __init__(self, funcs):
        self.funcs = funcs
        self.smt = 0
        self.solver_time = 0.0
        self.smt2_dumps = []

    def check(self, solver, *extra):
        t = time.time()
        solver.push()
        for x in extra:
            solver.add(x)
        r = solver.check()
        if len(self.smt2_dumps) < 400:
            self.smt2_dumps.append((solver.to_smt2(), str(r)))
        solver.pop()
        self.smt += 1
        self.solver_time += time.time() - t
        return r


def atoms_assumption(glob, names):
    out = []
    for n in names:
        if n == "PASSWORD_SET":
            out.append(glob.PASSWORD_SET)
        elif n == "NO_PASSWORD":
            out.append(z3.Not(glob.PASSWORD_SET))
        elif n == "NOT_AUTHENTICATED":
            out.append(glob.CONN_STATE != glob.AUTHENTICATED)
        elif n == "AUTHENTICATED":
            out.append(glob.CONN_STATE == glob.AUTHENTICATED)
        else:
            raise ValueError(n)
    return out


# ---------------------------------------------------------------------------------------------
def q_reach_allow(ctx, p):
    """Under the assumptions, which calls are reachable in fn (recursing into closure bodies
    passed to callees)?  Every reachable call must match the allow-list."""
    funcs = ctx.funcs
    fns = find_fn(funcs, p["fn"])
    if len(fns) != 1:
        return dict(status="inconclusive", reason="function pattern %r matched %d functions" % (p["fn"], len(fns)))
    glob = sym.Glob()
    glob.inline = p.get("inline", [])
    allow = [re.compile(a) for a in p.get("allow", [])]
    deny = [re.compile(a) for a in p.get("deny", [])]
    must = [re.compile(a) for a in p.get("must_reach", [])]
    must_seen = set()
    witnesses, details, functions = [], [], []
    obligations = discharged = 0
    stack = [(fns[0], [])]
    seen_fns = set()
    assum = atoms_assumption(glob, p.get("assume", []))
    while stack:
        fn, ctxpath = stack.pop()
        if fn.name in seen_fns:
            continue
        seen_fns.add(fn.name)
        functions.append(fn.name)
        try:
            enc = sym.Enc(fn, funcs, glob)
        except Exception as ex:
            if not ctxpath:
                raise
            witnesses.append(dict(key="%s: helper not encodable" % short_fn(fn.name),
                                  what="helper %s reached via %s could not be encoded (%r): treated as not allowed" % (short_fn(fn.name), ctxpath, ex)))
            continue
        s = z3.Solver()
        s.add(assum)
        s.add(enc.extra)
        if not ctxpath:
            for name, val in (p.get("assume_debug") or {}).items():
                v = enc.debug_value(name)
                if v is None:
                    return dict(status="inconclusive", reason="source variable %r not found/tracked in %s" % (name, fn.name))
                s.add(v == (z3.StringVal(val) if isinstance(val, str) else val))
            for pat, val, *rel in (p.get("assume_disc") or []):
                hit = False
                for b2 in enc.order:
                    for k2, v2 in enc.out_state[b2].items():
                        if not k2.startswith("disc:"):
                            continue
                        desc = k2 + " : " + " ".join(fn.locals.get(l, "") for l in re.findall(r"_\d+", k2))
                        if re.search(pat, desc):
                            s.add(v2 != val if (rel and rel[0] == "ne") else v2 == val)
                            hit = True
                if not hit:
                    return dict(status="inconclusive", reason="assumption discriminant %r not found in %s" % (pat, fn.name))
            for pat, val in (p.get("assume_place") or []):
                hit = False
                for b2 in enc.order:
                    for k2, v2 in enc.out_state[b2].items():
                        if k2.startswith("place:") and re.search(pat, k2) and z3.is_bool(v2) == isinstance(val, bool):
                            s.add(v2 == val)
                            hit = True
                        if isinstance(val, int) and not isinstance(val, bool) and re.search(pat, k2) and k2.startswith("len:") and z3.is_int(v2):
                            s.add(v2 == val)
                            hit = True
                if not hit:
                    return dict(status="inconclusive", reason="assumption place %r not found in %s" % (pat, fn.name))
            if ctx.check(s) != z3.sat:
                return dict(status="inconclusive", reason="vacuity guard: assumptions unsatisfiable")
        elif p.get("descend"):
            # a helper the target function delegates to runs under the same assumptions about the
            # connection: the discriminant assumptions apply wherever the helper reads that state
            for pat, val, *rel in (p.get("assume_disc") or []):
                for b2 in enc.order:
                    for k2, v2 in enc.out_state[b2].items():
                        if not k2.startswith("disc:"):
                            continue
                        desc = k2 + " : " + " ".join(fn.locals.get(l, "") for l in re.findall(r"_\d+", k2))
                        if re.search(pat, desc):
                            s.add(v2 != val if (rel and rel[0] == "ne") else v2 == val)
        scope = None
        if p.get("scope_loop_next") and not ctxpath:
            scope = loop_body(enc, p["scope_loop_next"])
            if scope is None:
                return dict(status="inconclusive", reason="loop with head call %r not found in %s" % (p["scope_loop_next"], fn.name))
        for b, t in enc.call_sites():
            if scope is not None and b not in scope:
                continue
            callee = t["callee"]
            nc = norm_callee(callee)
            obligations += 1
            r = ctx.check(s, enc.reach[b])
            if r == z3.unknown:
                return dict(status="inconclusive", reason="solver unknown")
            if r == z3.unsat:
                discharged += 1
                continue
            for i, mre in enumerate(must):
                if mre.search(nc) or mre.search(callee):
                    must_seen.add(i)
            ok = (not any(d.search(nc) or d.search(callee) for d in deny)) if deny else any(a.search(nc) for a in allow)
            # closures handed to the callee run under the same assumptions: descend
            for loc in re.findall(r"\{closure@([^}]*)\}", callee):
                cf = closure_fn(funcs, loc)
                if cf is not None:
                    stack.append((cf, ctxpath + [nc]))
                elif not ok:
                    pass
            if p.get("descend") and len(ctxpath) < 2 and not any(d.search(nc) or d.search(callee) for d in deny):
                # delegation to a crate-local helper (extract-function refactorings): examine the helper too
                last = nc.split("::")[-1]
                cands = [f for n, f in funcs.items() if not n.startswith("const ") and "{closure" not in n
                         and (n == last or n.endswith("::" + last))]
                if len(cands) == 1 and cands[0].name not in seen_fns and cands[0].name != fn.name and re.search(r"^[a-z_]+::<impl at src/|^[a-z_]+$", cands[0].name):
                    stack.append((cands[0], ctxpath + [nc]))
            if not ok and not deny and len(ctxpath) < 3:
                # a crate-local helper that is not on the allow-list is not an effect by itself:
                # it is examined like a closure body (every call inside it must be allowed, under
                # the same assumptions); only helpers whose MIR is found unambiguously
                last = nc.split("::")[-1]
                cands = [f for n, f in funcs.items() if not n.startswith("const ") and "{closure" not in n
                         and (n == last or n.endswith("::" + last))]
                if len(cands) == 1 and cands[0].name not in seen_fns and cands[0].name != fn.name:
                    stack.append((cands[0], ctxpath + [nc]))
                    details.append("descended into helper %s (not on the allow-list; its calls are examined instead)" % nc)
                    discharged += 1
                    continue
                if len(cands) == 1 and cands[0].name in seen_fns:
                    discharged += 1
                    continue
            if ok:
                discharged += 1
            else:
                where = " via ".join([fn.name.split(">::")[-1]] + ctxpath[::-1])
                witnesses.append(dict(key="%s -> %s" % (short_fn(fn.name), nc),
                                      what="call %s reachable in %s bb%d under %s" % (nc, where, b, p.get("assume", []))))
        details.append("%s: %d call sites examined" % (fn.name.split(">::")[-1], len(enc.call_sites())))
    miss = [p["must_reach"][i] for i in range(len(must)) if i not in must_seen]
    if miss and p.get("must_reach_violation"):
        for mm in miss:
            witnesses.append(dict(key="%s: %s not reached" % (short_fn(fns[0].name), mm),
                                  what="under the stated assumptions (%s) no execution reaches a call matching %s" % (p.get("assume_text", "see query"), mm)))
    if miss and not witnesses:
        return dict(status="inconclusive", reason="vacuity guard: expected reachable calls not found: %s" % miss,
                    obligations=obligations, discharged=discharged, functions=functions, details=details)
    # de-duplicate witnesses by key
    uniq = {}
    for w in witnesses:
        uniq.setdefault(w["key"], w)
    return dict(status="failed" if uniq else "held", witnesses=list(uniq.values()), obligations=obligations,
                discharged=discharged, functions=functions, details=details)


def loop_body(enc, head_call_re):
    """blocks of the natural loop(s) whose head block ends in (or leads straight to) a call matching
    head_call_re: union over all back edges to that head"""
    rpreds = {b: [] for b in enc.blocks}
    for b in enc.blocks:
        for s, _ in enc.blocks[b].succ:
            if s in enc.blocks:
                rpreds[s].append(b)
    body = None
    for (t, h) in enc.back_edges:
        hb = h
        seen = 0
        found = False
        while hb is not None and seen < 4:
            term = enc.blocks[hb].term
            if term and term["kind"] == "call" and re.search(head_call_re, term["callee"]):
                found = True
                break
            nxt = [s for s, _ in enc.blocks[hb].succ if s in enc.blocks]
            hb = nxt[0] if len(nxt) == 1 else None
            seen += 1
        if not found:
            continue
        if body is None:
            body = set()
        body.update({h, t})
        work = [t]
        while work:
            x = work.pop()
            if x == h:
                continue
            for q in rpreds[x]:
                if q not in body:
                    body.add(q)
                    work.append(q)
    return body


def ghost_count(enc, pattern, within=None, loop_aware=False):
    """Int term per block: number of calls matching `pattern` executed before the END of the block,
    along the (merged) paths; restricted to blocks in `within` (others contribute 0 and reset).
    loop_aware: at the head of a loop whose body contains a matching call the count is an
    arbitrary non-negative number (calls made by earlier iterations)."""
    pre = re.compile(pattern)
    g_out = {}
    side = []

    def hit_block(b):
        t = enc.blocks[b].term
        return bool(t and t["kind"] == "call" and pre.search(t["callee"]) and (within is None or b in within))
    n = 0
    for b in enc.order:
        ps = [p for p in enc.preds[b] if within is None or p in within]
        if not ps or (within is not None and b not in within):
            g_in = z3.IntVal(0)
        else:
            g_in = g_out[ps[-1]]
            for p in reversed(ps[:-1]):
                g_in = z3.If(z3.And(enc.reach[p], enc.edge[(p, b)]), g_out[p], g_in)
        if loop_aware and b in enc.loop_bodies and any(hit_block(x) for x in enc.loop_bodies[b]):
            n += 1
            prev = z3.Int("ghost_prev_iters_%d_bb%d" % (n, b))
            side.append(prev >= 0)
            g_in = g_in + prev
        g_out[b] = g_in + 1 if hit_block(b) else g_in
    if loop_aware:
        return g_out, side
    return g_out


def q_no_error_after(ctx, p):
    """Failure atomicity of a handler: no call matching `error` (an argument-error reply) is
    reachable on a path on which a call matching `effect` (a mutating engine call) has already
    been executed - including effects of earlier iterations of the loop the error sits in."""
    funcs = ctx.funcs
    fns = find_fn(funcs, p["fn"])
    if len(fns) != 1:
        return dict(status="inconclusive", reason="function pattern matched %d" % len(fns))
    fn = fns[0]
    enc = sym.Enc(fn, funcs, sym.Glob())
    g, side = ghost_count(enc, p["effect"], loop_aware=True)
    s = z3.Solver()
    s.add(enc.extra)
    s.add(side)
    errs = enc.call_sites(p["error"])
    effs = enc.call_sites(p["effect"])
    if not errs or not effs:
        return dict(status="inconclusive", reason="vacuity guard: %d error sites, %d effect sites" % (len(errs), len(effs)))
    witnesses = []
    obligations = discharged = 0
    for b, t in errs:
        obligations += 1
        r = ctx.check(s, enc.reach[b], g[b] > 0)
        if r == z3.sat:
            arg = t["args"][0] if t["args"] else ""
            witnesses.append(dict(key="%s: error reply after %s" % (short_fn(fn.name), p["effect"]),
                                  what="error reply %s (bb%d) is reachable after %s has already taken effect: a refused command leaves a partial effect" % (arg[:60], b, p["effect"])))
        elif r == z3.unsat:
            discharged += 1
        else:
            return dict(status="inconclusive", reason="solver unknown")
    uniq = {}
    for w in witnesses:
        uniq.setdefault(w["key"], w)
    return dict(status="failed" if uniq else "held", witnesses=list(uniq.values()), obligations=obligations,
                discharged=discharged, functions=[fn.name],
                details=["%d error-reply sites, %d effect sites; loop heads carry an arbitrary number of earlier effects" % (len(errs), len(effs))])


# ---------------------------------------------------------------------------------------------
def q_loop_one_push(ctx, p):
    """In the loop of fn whose head calls `head`, one arbitrary iteration: (1) exactly `count` calls
    matching `push` on every path that reaches the back edge; (2) every edge leaving the loop body
    other than the head's own exit is reported (a path on which the function leaves the loop - e.g.
    `?` - without finishing the iteration), unless its source call matches allow_exit."""
    funcs = ctx.funcs
    fns = find_fn(funcs, p["fn"])
    if len(fns) != 1:
        return dict(status="inconclusive", reason="function pattern matched %d" % len(fns))
    fn = fns[0]
    glob = sym.Glob()
    enc = sym.Enc(fn, funcs, glob)
    body = loop_body(enc, p["head"])
    if body is None:
        return dict(status="inconclusive", reason="loop with head call %r not found" % p["head"])
    s = z3.Solver()
    s.add(enc.extra)
    witnesses, details = [], []
    obligations = discharged = 0
    # (1) push count at back-edge tails
    g = ghost_count(enc, p["push"], within=body)
    tails = [t for (t, h) in enc.back_edges if t in body]
    want = p.get("count", 1)
    npush = sum(1 for b in body if enc.blocks[b].term and enc.blocks[b].term["kind"] == "call"
                and re.search(p["push"], enc.blocks[b].term["callee"]))
    if npush == 0:
        return dict(status="inconclusive", reason="vacuity guard: no call matching %r in the loop body" % p["push"])
    for t in tails:
        obligations += 1
        r = ctx.check(s, enc.reach[t], g[t] != want)
        if r == z3.sat:
            witnesses.append(dict(key="%s: iteration with %s-count != %d" % (fn.name.split(">::")[-1], p["push"], want),
                                  what="a path through one loop iteration reaches the back edge (bb%d) with a number of %s calls different from %d" % (t, p["push"], want)))
        elif r == z3.unsat:
            discharged += 1
        else:
            return dict(status="inconclusive", reason="solver unknown")
    details.append("loop body of %d blocks, %d push sites, %d back-edge tails" % (len(body), npush, len(tails)))
    # (2) early exits
    allow_exit = [re.compile(a) for a in p.get("allow_exit", [])]
    head_exit_ok = set()
    for b in body:
        term = enc.blocks[b].term
        if term and term["kind"] == "call" and re.search(p["head"], term["callee"]):
            head_exit_ok.add(b)
    # the switch on the iterator result sits in the block after the head call
    exit_blocks_ok = set()
    for hb in head_exit_ok:
        for s1, _ in enc.blocks[hb].succ:
            exit_blocks_ok.add(s1)
    for b in sorted(body):
        for s2, lab in enc.blocks[b].succ:
            if s2 in enc.blocks and s2 not in body:
                if b in exit_blocks_ok or b in head_exit_ok:
                    continue
                obligations += 1
                r = ctx.check(s, enc.reach[b], enc.edge[(b, s2)])
                if r == z3.unsat:
                    discharged += 1
                    continue
                # attribute the exit to the nearest preceding call in the body
                src = nearest_call(enc, b, body)
                nc = norm_callee(src) if src else "bb%d" % b
                if any(a.search(nc) for a in allow_exit):
                    discharged += 1
                    details.append("allowed early exit after %s" % nc)
                    continue
                witnesses.append(dict(key="%s: early exit after %s" % (fn.name.split(">::")[-1], nc),
                                      what="the function can leave the loop in the middle of an iteration (bb%d -> bb%d) after %s: the request being processed gets no reply and the remaining ones are dropped" % (b, s2, nc)))
    uniq = {}
    for w in witnesses:
        uniq.setdefault(w["key"], w)
    return dict(status="failed" if uniq else "held", witnesses=list(uniq.values()), obligations=obligations,
                discharged=discharged, functions=[fn.name], details=details)


def nearest_call(enc, b, body):
    """callee of the closest call block that precedes b on a unique backward chain"""
    seen = set()
    cur = b
    while cur is not None and cur not in seen:
        seen.add(cur)
        t = enc.blocks[cur].term
        if t and t["kind"] == "call" and cur != b:
            c = t["callee"]
            if not re.search(r"(FromResidual|Try>::branch|Deref|discriminant)", c):
                return c
        ps = [p for p in enc.preds[cur] if p in body]
        cur = ps[0] if len(ps) >= 1 else None
    return None


# ---------------------------------------------------------------------------------------------
def q_dominates(ctx, p):
    """Every feasible path to a call matching `target` has passed a call matching `before`
    (ghost flag).  Optionally only for paths on which string local equals one of `when_cmd`."""
    funcs = ctx.funcs
    fns = find_fn(funcs, p["fn"])
    if len(fns) != 1:
        return dict(status="inconclusive", reason="function pattern matched %d" % len(fns))
    fn = fns[0]
    glob = sym.Glob()
    enc = sym.Enc(fn, funcs, glob)
    s = z3.Solver()
    s.add(enc.extra)
    comp_details = []
    if not enc.call_sites(p["before"]) and not p.get("_in_helper"):
        # Compositional fallback (extract-function refactorings): `before` is not called in fn itself
        # but in exactly one crate-local helper H that fn calls.  (1) Under the same assumptions,
        # evaluated where H reads them, every return of H has passed `before` (for the vacuity twin:
        # some return has not); (2) in fn the call of H then plays the role of `before`.
        helpers = []
        for b, t in enc.call_sites():
            last = norm_callee(t["callee"]).split("::")[-1]
            cands = [f for n, f in funcs.items() if not n.startswith("const ") and "{closure" not in n and (n == last or n.endswith("::" + last))]
            if len(cands) == 1 and cands[0].name != fn.name:
                h = cands[0]
                if any(bl.term and bl.term["kind"] == "call" and re.search(p["before"], bl.term["callee"]) for bl in h.blocks.values()):
                    if h.name not in [x.name for x in helpers]:
                        helpers.append(h)
        if len(helpers) == 1:
            h = helpers[0]
            henc = sym.Enc(h, funcs, sym.Glob())
            hs = z3.Solver()
            hs.add(henc.extra)
            hextra = []
            for pat, val in (p.get("assume_sites") or []):
                for b, t in henc.call_sites(pat):
                    if b in henc.site and z3.is_bool(henc.site[b]):
                        hextra.append(henc.site[b] == val)
            found_disc = not p.get("assume_disc")
            for pat, val in (p.get("assume_disc") or []):
                for b in henc.order:
                    for k, v in henc.out_state[b].items():
                        if k.startswith("disc:") and re.search(pat, k + " : " + " ".join(h.locals.get(l, "") for l in re.findall(r"_\d+", k))):
                            hextra.append(v == val)
                            found_disc = True
            if not found_disc:
                return dict(status="inconclusive", reason="assumption discriminant not found in %s nor in its helper %s" % (short_fn(fn.name), short_fn(h.name)))
            hg = ghost_count(henc, p["before"])
            rets = [b for b in henc.order if henc.blocks[b].term and henc.blocks[b].term["kind"] == "return"]
            skipping = [b for b in rets if ctx.check(hs, henc.reach[b], hg[b] == 0, *hextra) == z3.sat]
            if p.get("sanity_expect_fail"):
                if skipping:
                    return dict(status="held", witnesses=[], obligations=len(rets), discharged=len(rets), functions=[fn.name, h.name],
                                details=["sanity twin (compositional): helper %s can return without %s under the negated assumption, as expected" % (short_fn(h.name), p["before"])])
                return dict(status="inconclusive", reason="vacuity guard: sanity twin found no witness in helper %s" % short_fn(h.name))
            if skipping:
                return dict(status="failed", obligations=len(rets), discharged=len(rets) - len(skipping), functions=[fn.name, h.name],
                            witnesses=[dict(key="%s: returns without %s" % (short_fn(h.name), p["before"]),
                                            what="helper %s (called by %s in place of a direct %s) can return without calling it under the stated assumptions (return bb%s)" % (
                                                short_fn(h.name), short_fn(fn.name), p["before"], skipping))])
            comp_details.append("compositional: %s is called in helper %s; under the assumptions every one of its %d returns has passed it; the call of the helper is the 'before' event in %s" % (
                p["before"], short_fn(h.name), len(rets), short_fn(fn.name)))
            p = dict(p)
            p["before"] = "^" + re.escape([t["callee"] for b, t in enc.call_sites() if norm_callee(t["callee"]).split("::")[-1] == h.name.split("::")[-1]][0]) + "$"
            p["assume_sites"] = [x for x in (p.get("assume_sites") or []) if enc.call_sites(x[0])]
            p["assume_disc"] = []
    g = ghost_count(enc, p["before"])
    targets = enc.call_sites(p["target"])
    befores = enc.call_sites(p["before"])
    if not targets:
        return dict(status="inconclusive", reason="vacuity guard: no target call sites matching %r" % p["target"])
    witnesses = []
    obligations = discharged = 0
    extra = []
    if p.get("assume_sites"):
        # e.g. is_write_command returned true, aof engine present
        for pat, val in p["assume_sites"]:
            sites = enc.call_sites(pat)
            if not sites:
                return dict(status="inconclusive", reason="assumption site %r not found" % pat)
            for b, t in sites:
                if b in enc.site and z3.is_bool(enc.site[b]):
                    extra.append(enc.site[b] == val)
    if p.get("assume_disc"):
        for pat, val in p["assume_disc"]:
            hit = False
            for b in enc.order:
                for k, v in enc.out_state[b].items():
                    if not k.startswith("disc:"):
                        continue
                    desc = k + " : " + " ".join(fn.locals.get(l, "") for l in re.findall(r"_\d+", k))
                    if re.search(pat, desc):
                        extra.append(v == val)
                        hit = True
            if not hit:
                return dict(status="inconclusive", reason="assumption discriminant %r not found" % pat)
    for b, t in targets:
        obligations += 1
        # count before entering the block = g_out of block minus own hit (target != before)
        r = ctx.check(s, enc.reach[b], g[b] == 0, *extra)
        if r == z3.sat:
            witnesses.append(dict(key="%s: %s without %s" % (fn.name.split(">::")[-1], norm_callee(t["callee"]), p["before"]),
                                  what="call %s at bb%d is reachable on a path with no preceding %s" % (norm_callee(t["callee"]), b, p["before"])))
        elif r == z3.unsat:
            discharged += 1
        else:
            return dict(status="inconclusive", reason="solver unknown")
    uniq = {}
    for w in witnesses:
        uniq.setdefault(w["key"], w)
    if p.get("sanity_expect_fail"):
        # vacuity twin: with the enabling assumption negated the ordering must NOT hold
        if uniq:
            return dict(status="held", witnesses=[], obligations=obligations, discharged=obligations, functions=[fn.name],
                        details=["sanity twin: %d witnesses found as expected" % len(uniq)])
        return dict(status="inconclusive", reason="vacuity guard: sanity twin found no witness", obligations=obligations,
                    discharged=discharged, functions=[fn.name])
    return dict(status="failed" if uniq else "held", witnesses=list(uniq.values()), obligations=obligations,
                discharged=discharged, functions=[fn.name],
                details=comp_details + ["%d target call sites, each checked for a %s-free path" % (len(targets), p["before"])])


# ---------------------------------------------------------------------------------------------
def q_string_set(ctx, p):
    """fn(&self?, s: &str) -> bool decided by string comparisons against constants: find a string on
    which it disagrees with the specification set (one query over all strings)."""
    funcs = ctx.funcs
    fns = find_fn(funcs, p["fn"])
    if len(fns) != 1:
        return dict(status="inconclusive", reason="function pattern matched %d" % len(fns))
    fn = fns[0]
    glob = sym.Glob()
    enc = sym.Enc(fn, funcs, glob)
    rets = [b for b in enc.order if enc.blocks[b].term and enc.blocks[b].term["kind"] == "return"]
    if len(rets) != 1:
        return dict(status="inconclusive", reason="%d return blocks" % len(rets))
    v = enc.out_state[rets[0]].get("_0")
    arg = enc.arg_terms.get(p.get("arg", "_2"))
    if v is None or arg is None or not z3.is_bool(v):
        return dict(status="inconclusive", reason="return value or argument not tracked")
    s = z3.Solver()
    s.add(enc.extra)
    s.add(enc.reach[rets[0]])
    spec = z3.Or([arg == z3.StringVal(x) for x in p["spec"]])
    witnesses = []
    obligations = discharged = 0
    # vacuity: function says true for at least one string
    if ctx.check(s, v) != z3.sat:
        return dict(status="inconclusive", reason="vacuity guard: function never returns true")
    # (a) strings in the spec on which the function says false (enumerated by the solver, blocking clauses)
    block = []
    for _ in range(200):
        obligations += 1
        s.push()
        s.add(block)
        s.add(spec, z3.Not(v))
        r = s.check()
        ctx.smt += 1
        if r == z3.sat:
            w = s.model().eval(arg, model_completion=True).as_string()
            s.pop()
            block.append(arg != z3.StringVal(w))
            witnesses.append(dict(key="%s misses %s" % (fn.name.split(">::")[-1], w),
                                  what="%s(%r) = false but %r is in the specification set %s" % (fn.name.split(">::")[-1], w, w, p.get("spec_name", ""))))
        else:
            s.pop()
            if r == z3.unsat:
                discharged += 1
            break
    # (b) strings outside the spec (and outside `may`) on which it says true
    may = p.get("may", [])
    block = []
    for _ in range(200):
        obligations += 1
        s.push()
        s.add(block)
        s.add(z3.Not(spec), v)
        for x in may:
            s.add(arg != z3.StringVal(x))
        r = s.check()
        ctx.smt += 1
        if r == z3.sat:
            w = s.model().eval(arg, model_completion=True).as_string()
            s.pop()
            block.append(arg != z3.StringVal(w))
            witnesses.append(dict(key="%s wrongly includes %s" % (fn.name.split(">::")[-1], w),
                                  what="%s(%r) = true but %r is not in the specification set" % (fn.name.split(">::")[-1], w, w)))
        else:
            s.pop()
            if r == z3.unsat:
                discharged += 1
            break
    return dict(status="failed" if witnesses else "held", witnesses=witnesses, obligations=obligations,
                discharged=discharged, functions=[fn.name],
                details=["one string variable for the argument; spec set of %d names" % len(p["spec"])])


def resolve_callee(funcs, callee, nargs):
    nc = norm_callee(callee)
    last = nc.split("::")[-1]
    cands = [f for n, f in funcs.items() if not n.startswith("const ") and norm_callee(n).split("::")[-1] == last and len(f.args) == nargs]
    if len(cands) > 1 and "::" in nc:
        owner = nc.split("::")[-2]
        c2 = [f for f in cands if owner in f.name or (owner == "Server" and "server.rs" in f.name)]
        if c2:
            cands = c2
    return cands[0] if len(cands) == 1 else None


def q_arg_flow(ctx, p):
    """Every call in fn to a crate function that has a parameter named like p['callee_params'] must
    pass the caller's own parameter p['param'] unchanged (solver: operand != param unsat on every
    feasible path).  Callees matching p['needs'] that have no such parameter are reported unless
    they match p['exempt']."""
    funcs = ctx.funcs
    fns = find_fn(funcs, p["fn"])
    if len(fns) != 1:
        return dict(status="inconclusive", reason="function pattern matched %d" % len(fns))
    fn = fns[0]
    glob = sym.Glob()
    enc = sym.Enc(fn, funcs, glob)
    src = enc.debug_value(p["param"])
    if src is None:
        if not p.get("param_required"):
            return dict(status="inconclusive", reason="parameter %r not tracked" % p["param"])
        # the function is REQUIRED to use its captured/own database variable: a call that passes a
        # database while no such variable exists in the function receives some other value
        src = z3.Int("missing_%s" % p["param"])
        missing = True
    else:
        missing = False
    s = z3.Solver()
    s.add(enc.extra)
    names = set(p["callee_params"])
    needs = [re.compile(x) for x in p.get("needs", [])]
    exempt = [re.compile(x) for x in p.get("exempt", [])]
    witnesses, details = [], []
    obligations = discharged = 0
    checked = 0
    for b, t in enc.call_sites():
        nc = norm_callee(t["callee"])
        cf = resolve_callee(funcs, t["callee"], len(t["args"]))
        idx = None
        if cf is not None:
            for nm, place in cf.debug.items():
                if nm in names and place in cf.args:
                    idx = cf.args.index(place)
        if idx is not None:
            obligations += 1
            checked += 1
            st = enc.out_state[b]
            actual = enc.operand(st, t["args"][idx])
            if actual is None:
                witnesses.append(dict(key="%s: %s gets an untracked %s" % (fn.name.split(">::")[-1], nc, p["param"]),
                                      what="argument %d of %s is not a tracked copy of %s" % (idx, nc, p["param"])))
                continue
            r = ctx.check(s, enc.reach[b], actual != src) if not missing else ctx.check(s, enc.reach[b])
            if r == z3.unsat:
                discharged += 1
            elif r == z3.sat:
                witnesses.append(dict(key="%s: %s gets a different %s" % (fn.name.split(">::")[-1], nc, p["param"]),
                                      what="call %s at bb%d can receive a value different from the caller's %s" % (nc, b, p["param"])))
            else:
                return dict(status="inconclusive", reason="solver unknown")
        elif any(x.search(nc) for x in needs) and not any(x.search(nc) for x in exempt):
            obligations += 1
            r = ctx.check(s, enc.reach[b])
            if r == z3.sat:
                witnesses.append(dict(key="%s: %s has no %s parameter" % (fn.name.split(">::")[-1], nc, p["param"]),
                                      what="handler %s is reachable (bb%d) and takes no %s argument: it cannot act on the connection's selected database" % (nc, b, p["param"])))
            else:
                discharged += 1
    if checked == 0:
        return dict(status="inconclusive", reason="vacuity guard: no callee with a parameter named %s" % sorted(names))
    details.append("%d call sites pass %s; each compared with the caller's parameter by the solver" % (checked, p["param"]))
    uniq = {}
    for w in witnesses:
        uniq.setdefault(w["key"], w)
    return dict(status="failed" if uniq else "held", witnesses=list(uniq.values()), obligations=obligations,
                discharged=discharged, functions=[fn.name], details=details)


def closure_has_stmt(funcs, callee, stmt_re):
    for loc in re.findall(r"\{closure@([^}]*)\}", callee):
        cf = closure_fn(funcs, loc)
        if cf is None:
            continue
        for b in cf.blocks.values():
            for d, rhs in b.stmts:
                if d and re.search(stmt_re, "%s = %s" % (d, rhs)):
                    return True
    return False


def q_guarded(ctx, p):
    """A call (identified by callee regex and/or by a statement inside the closure it is given) is
    reachable only on executions that have passed a guard call (callee regex) whose result was
    `value`.  The encoding describes ONE execution, so 'passed guard s with result v' is
    reach[s] and site[s] == v."""
    funcs = ctx.funcs
    fns = find_fn(funcs, p["fn"])
    if len(fns) != 1:
        return dict(status="inconclusive", reason="function pattern matched %d" % len(fns))
    fn = fns[0]
    enc = sym.Enc(fn, funcs, sym.Glob())
    s = z3.Solver()
    s.add(enc.extra)
    targets = []
    for b, t in enc.call_sites(p.get("target", r".")):
        if p.get("target_closure_stmt") and not closure_has_stmt(funcs, t["callee"], p["target_closure_stmt"]):
            continue
        targets.append((b, t))
    if not targets:
        return dict(status="inconclusive", reason="vacuity guard: no target call site")
    guards = [(b, t) for b, t in enc.call_sites(p["guard"]) if b in enc.site and z3.is_bool(enc.site[b])]
    val = p.get("value", True)
    passed = z3.Or([z3.And(enc.reach[b], enc.site[b] == val) for b, _ in guards]) if guards else z3.BoolVal(False)
    witnesses = []
    obligations = discharged = 0
    for b, t in targets:
        obligations += 1
        if ctx.check(s, enc.reach[b]) != z3.sat:
            return dict(status="inconclusive", reason="vacuity guard: target bb%d unreachable" % b)
        r = ctx.check(s, enc.reach[b], z3.Not(passed))
        if r == z3.sat:
            witnesses.append(dict(key="%s: %s without %s" % (short_fn(fn.name), p.get("target_name", norm_callee(t["callee"])), p.get("guard_name", p["guard"])),
                                  what="%s (bb%d) is reachable on an execution that has not passed %s with result %s (%d guard sites found)" % (
                                      p.get("target_name", norm_callee(t["callee"])), b, p.get("guard_name", p["guard"]), val, len(guards))))
        elif r == z3.unsat:
            discharged += 1
        else:
            return dict(status="inconclusive", reason="solver unknown")
    return dict(status="failed" if witnesses else "held", witnesses=witnesses, obligations=obligations, discharged=discharged,
                functions=[fn.name], details=["%d target sites, %d guard sites" % (len(targets), len(guards))])


def q_bounds(ctx, p):
    """Bounds-check feasibility in the functions matching p['fns']: rustc's MIR carries every
    slice/Vec index bounds check as assert(cond, "index out of bounds...").  Where cond is tracked
    (index and length are terms of the encoding) the solver decides whether an execution with
    cond false exists; untracked conditions are counted as undecided, never as witnesses."""
    funcs = ctx.funcs
    pats = [re.compile(x) for x in p["fns"]]
    skip = [re.compile(x) for x in p.get("skip", [])]
    sel = [f for n, f in funcs.items() if any(x.search(n) for x in pats) and not any(x.search(n) for x in skip) and not n.startswith("const ")]
    if not sel:
        return dict(status="inconclusive", reason="no function matched")
    witnesses, details, functions = [], [], []
    und_sites = []
    obligations = discharged = undecided = 0
    msg_re = re.compile(p.get("msg", r"index out of bounds"))
    for fn in sel:
        try:
            gl = sym.Glob()
            gl.min_len = dict(p.get("min_len") or {})
            enc = sym.Enc(fn, funcs, gl)
        except Exception as ex:
            details.append("%s: not encoded (%r)" % (short_fn(fn.name), ex))
            continue
        s = z3.Solver()
        s.add(enc.extra)
        n_here = 0
        for b in enc.order:
            t = enc.blocks[b].term
            if not t or t["kind"] != "assert" or not msg_re.search(t.get("msg", "")):
                continue
            n_here += 1
            st = enc.out_state[b]
            ctxt = t["cond"].strip()
            neg = ctxt.startswith("!")
            opnd = ctxt[1:] if neg else ctxt
            c = enc.operand(st, opnd)
            if c is None or not z3.is_bool(c):
                undecided += 1
                und_sites.append("%s bb%d %s" % (short_fn(fn.name), b, re.sub(r"\s+", " ", t.get("msg", ""))[:34]))
                continue
            if p.get("overflow"):
                # overflow flags are decided only where the arithmetic was modelled, and never for
                # loop-carried accumulators (arbitrary at the loop head in this encoding, bounded by
                # the trip count in reality)
                mk = re.match(r"^(?:copy |move )?(\(_\d+\.1: bool\))$", opnd.strip())
                is_flag = mk is not None
                if is_flag and ("place:" + mk.group(1)) not in enc.modelled_flags:
                    undecided += 1
                    continue
                # A check that cannot fail for ANY value of the arbitrary terms (loop-carried, unmodelled,
                # state-derived) is discharged all the same - arbitrary is an over-approximation; such
                # terms only make a SATISFIABLE answer meaningless, so there the site is undecided.
                weak = ("havoc_" in str(c) or "unm_" in str(c) or (p.get("inputs_only") and not provenance_ok(enc, c, True)))
            else:
                # index bounds: lengths are INPUTS only when they are the length of a parameter slice
                # (the request); the length of a slice produced by a call (chunks_exact, split_at,
                # sub-slicing), results of other calls and fields are unknown-but-not-arbitrary:
                # a satisfiable answer that depends on them is undecided, not a witness
                weak = False
                pargs = set(fn.args) | set("*" + a for a in fn.args)
                for n in free_names(c, data_only=True):
                    ml = re.match(r"^len_(_\d+)_", n)
                    if ml:
                        if not (ml.group(1) in fn.args or enc.ref_base.get(ml.group(1)) in pargs):
                            weak = True
                    elif re.search(r":call_bb\d+!\d+$", n) or re.search(r":place(_\w+)?!\d+$", n) or "unm_" in n:
                        weak = True
            if neg:
                c = z3.Not(c)
            r = ctx.check(s, enc.reach[b], z3.Not(c))
            if r == z3.sat and weak:
                undecided += 1
                und_sites.append("%s bb%d %s [operands not built from inputs]" % (short_fn(fn.name), b, re.sub(r"\s+", " ", t.get("msg", ""))[:34]))
                continue
            obligations += 1
            if r == z3.unsat:
                discharged += 1
            elif r == z3.sat:
                witnesses.append(dict(key="%s: index out of bounds" % short_fn(fn.name),
                                      what="%s bb%d: an execution exists on which the bounds check %s fails (args %s)" % (short_fn(fn.name), b, t.get("msg", "")[:40], t.get("args"))))
            else:
                undecided += 1
        if n_here:
            functions.append(fn.name)
    details.append("%d functions with bounds checks; %d checks decided by the solver, %d undecided (index or length not tracked)" % (len(functions), obligations, undecided))
    if und_sites:
        details.append("undecided sites (first 60): " + "; ".join(und_sites[:60]))
    if obligations == 0:
        return dict(status="inconclusive", reason="vacuity guard: no bounds check could be decided", details=details)
    uniq = {}
    for w in witnesses:
        uniq.setdefault(w["key"], w)
    return dict(status="failed" if uniq else "held", witnesses=list(uniq.values()), obligations=obligations,
                discharged=discharged, functions=functions[:40], details=details)


def free_names(t, data_only=False):
    """names of the uninterpreted constants of a term; with data_only the CONDITIONS of if-then-else
    terms (path conditions introduced where control flow merges) are not followed: only the values
    that can flow into the term count"""
    out, seen, stack = set(), set(), [t]
    while stack:
        x = stack.pop()
        if x.get_id() in seen:
            continue
        seen.add(x.get_id())
        if z3.is_const(x) and x.decl().kind() == z3.Z3_OP_UNINTERPRETED:
            out.add(x.decl().name())
        ch = x.children()
        if data_only and z3.is_app_of(x, z3.Z3_OP_ITE):
            ch = ch[1:]
        stack.extend(ch)
    return out


def provenance_ok(enc, term, need_input):
    """decided only where the term is built from INPUTS (integer parameters, fields of by-value
    parameters, results of str::parse) plus lengths of existing collections and constants"""
    names = free_names(term, data_only=True)
    n_in = 0
    for n in names:
        if re.search(r":arg_\d+!\d+$", n) or re.search(r":place_(parsed|argval)!\d+$", n):
            n_in += 1
        elif n.startswith("len") or is_len_name(enc, n):
            pass
        else:
            return False
    return n_in > 0 or not need_input


def is_len_name(enc, n):
    return any(z3.is_const(v) and v.decl().name() == n for v in enc.len_terms)


def q_alloc_bound(ctx, p):
    """Reservation sizes: at every call matching p['call'] (with_capacity / reserve / from_elem /
    resize ...) in the selected functions whose size argument is a modelled integer term, no
    execution exists on which the argument exceeds p['limit'] - given that every len()/count()
    result and slice length is at most p['len_max'] (collections that exist in memory) while numbers
    parsed from the request and integer parameters are arbitrary values of their types."""
    funcs = ctx.funcs
    pats = [re.compile(x) for x in p["fns"]]
    skip = [re.compile(x) for x in p.get("skip", [])]
    sel = [f for n, f in funcs.items() if any(x.search(n) for x in pats) and not any(x.search(n) for x in skip) and not n.startswith("const ")]
    if not sel:
        return dict(status="inconclusive", reason="no function matched")
    call_re = re.compile(p.get("call", r"::(with_capacity|reserve|reserve_exact|from_elem|resize)$"))
    limit, len_max = int(p.get("limit", 2**32)), int(p.get("len_max", 2**32))
    und_sites = []
    witnesses, details, functions = [], [], []
    obligations = discharged = undecided = 0
    for fn in sel:
        sites = [b for b, blk in fn.blocks.items() if blk.term and blk.term["kind"] == "call" and call_re.search(norm_callee(blk.term["callee"]))]
        if not sites:
            continue
        try:
            gl = sym.Glob()
            gl.min_len = dict(p.get("min_len") or {})
            gl.input_calls = list(p.get("input_calls") or [])
            enc = sym.Enc(fn, funcs, gl)
        except Exception as ex:
            details.append("%s: not encoded (%r)" % (short_fn(fn.name), ex))
            continue
        s = z3.Solver()
        s.add(enc.extra)
        # lengths of existing collections are bounded
        for c in enc.len_terms:
            s.add(c <= len_max)
        functions.append(fn.name)
        for b in sites:
            if b not in enc.reach:
                continue
            t = enc.blocks[b].term
            st = enc.out_state[b]
            # size argument: the last integer-typed argument (with_capacity(n); reserve(&mut v, n); from_elem(x, n); resize(&mut v, n, x))
            arg = None
            cal = norm_callee(t["callee"])
            idx = {"with_capacity": 0, "reserve": 1, "reserve_exact": 1, "from_elem": 1, "resize": 1}.get(cal.split("::")[-1], None)
            if idx is not None and idx < len(t["args"]):
                arg = enc.operand(st, t["args"][idx])
            if arg is None or not z3.is_int(arg):
                undecided += 1
                und_sites.append("%s bb%d %s" % (short_fn(fn.name), b, cal.split("::")[-1]))
                continue
            # decided only where the size is built (through modelled arithmetic) from integer
            # PARAMETERS of the function, lengths of existing collections and constants; sizes that
            # depend on fields of existing state, results of unmodelled calls/operators or
            # loop-carried values are undecided, never witnesses
            r = ctx.check(s, enc.reach[b], arg > limit)
            if r == z3.sat and not provenance_ok(enc, arg, False):
                # a bound that holds for ANY value of the arbitrary terms is discharged; a satisfiable
                # answer that depends on them is meaningless: undecided
                undecided += 1
                und_sites.append("%s bb%d %s [size not built from inputs]" % (short_fn(fn.name), b, cal.split("::")[-1]))
                continue
            obligations += 1
            if r == z3.unsat:
                discharged += 1
            elif r == z3.sat:
                witnesses.append(dict(key="%s: unbounded reservation %s" % (short_fn(fn.name), cal.split("<")[0] + "::" + cal.split("::")[-1]),
                                      what="%s bb%d: %s can be called with a size above %d although every existing collection holds at most %d elements (size argument %s)" % (
                                          short_fn(fn.name), b, cal[:60], limit, len_max, t["args"][idx])))
            else:
                undecided += 1
    details.append("%d functions with reservation calls; %d sites decided, %d undecided (size not a modelled term or loop-carried)" % (len(functions), obligations, undecided))
    if und_sites:
        details.append("undecided sites: " + "; ".join(und_sites[:40]))
    if obligations == 0:
        return dict(status="inconclusive", reason="vacuity guard: no reservation site could be decided", details=details)
    uniq = {}
    for w in witnesses:
        uniq.setdefault(w["key"], w)
    return dict(status="failed" if uniq else "held", witnesses=list(uniq.values()), obligations=obligations,
                discharged=discharged, functions=functions[:40], details=details)


def q_float_guard(ctx, p):
    """Float-to-duration conversions: at every call matching p['call'] (Duration::from_secs_f64,
    which panics on NaN, infinities, negative and too large values) whose argument is a modelled
    IEEE-754 term, no execution exists on which the argument is NaN, infinite, negative or above
    p['limit'] seconds.  Floats parsed from the request are arbitrary binary64 values."""
    funcs = ctx.funcs
    call_re = re.compile(p.get("call", r"Duration::from_secs_f64$"))
    limit = float(p.get("limit", 1e11))
    witnesses, details, functions = [], [], []
    obligations = discharged = undecided = 0
    for name, fn in funcs.items():
        if name.startswith("const ") or any(re.search(x, name) for x in p.get("skip", [])):
            continue
        sites = [b for b, blk in fn.blocks.items() if blk.term and blk.term["kind"] == "call" and call_re.search(norm_callee(blk.term["callee"]))]
        if not sites:
            continue
        try:
            enc = sym.Enc(fn, funcs, sym.Glob())
        except Exception as ex:
            details.append("%s: not encoded (%r)" % (short_fn(fn.name), ex))
            continue
        s = z3.Solver()
        s.add(enc.extra)
        functions.append(fn.name)
        for b in sites:
            if b not in enc.reach:
                continue
            t = enc.blocks[b].term
            x = enc.operand(enc.out_state[b], t["args"][0]) if t["args"] else None
            if x is None or not z3.is_fp(x):
                undecided += 1
                continue
            obligations += 1
            bad = z3.Or(z3.fpIsNaN(x), z3.fpIsInf(x), z3.fpLT(x, z3.FPVal(0.0, z3.Float64())), z3.fpGT(x, z3.FPVal(limit, z3.Float64())))
            r = ctx.check(s, enc.reach[b], bad)
            if r == z3.unsat:
                discharged += 1
            elif r == z3.sat:
                witnesses.append(dict(key="%s: unguarded float duration" % short_fn(fn.name),
                                      what="%s bb%d: %s can be called with NaN, an infinity, a negative value or more than %g seconds (argument %s)" % (
                                          short_fn(fn.name), b, norm_callee(t["callee"])[-40:], limit, t["args"][0])))
            else:
                undecided += 1
    details.append("%d functions with float-to-duration conversions; %d sites decided, %d undecided" % (len(functions), obligations, undecided))
    if obligations == 0:
        return dict(status="inconclusive", reason="vacuity guard: no float-to-duration conversion could be decided", details=details)
    return dict(status="failed" if witnesses else "held", witnesses=witnesses, obligations=obligations,
                discharged=discharged, functions=functions[:40], details=details)


def q_must_call(ctx, p):
    """Every execution that reaches a normal return with `_0 = Ok(..)` (or any return, if
    ok_only is false) has passed a call matching `call` (optionally with an argument matching
    `arg`): ghost counter == 0 at the return must be unsatisfiable."""
    funcs = ctx.funcs
    fns = find_fn(funcs, p["fn"])
    if len(fns) != 1:
        return dict(status="inconclusive", reason="function pattern %r matched %d" % (p["fn"], len(fns)))
    fn = fns[0]
    enc = sym.Enc(fn, funcs, sym.Glob())
    s = z3.Solver()
    s.add(enc.extra)
    argre = re.compile(p["arg"]) if p.get("arg") else None
    # ghost over call sites that match callee (and argument)
    g_out = {}
    nsites = 0
    for b in enc.order:
        ps = enc.preds[b]
        if not ps:
            g_in = z3.IntVal(0)
        else:
            g_in = g_out[ps[-1]]
            for q in reversed(ps[:-1]):
                g_in = z3.If(z3.And(enc.reach[q], enc.edge[(q, b)]), g_out[q], g_in)
        t = enc.blocks[b].term
        hit = bool(t and t["kind"] == "call" and re.search(p["call"], t["callee"]) and (argre is None or any(argre.search(a) for a in t["args"])))
        if hit:
            nsites += 1
        g_out[b] = g_in + 1 if hit else g_in
    rets = []
    for b in enc.order:
        t = enc.blocks[b].term
        if not t or t["kind"] != "return":
            continue
        rets.append(b)
    # Ok-returns: the block (or a predecessor chain of gotos) assigns _0 = ...::Ok(
    def assigns_ok(b, depth=0):
        for d, rhs in enc.blocks[b].stmts:
            if d == "_0" and re.search(r"::Ok\(|Result::<.*>::Ok", rhs):
                return True
        return False
    ok_blocks = [b for b in enc.order if assigns_ok(b)]
    if p.get("ok_only", True):
        targets = ok_blocks
    else:
        targets = rets
    if not targets:
        return dict(status="inconclusive", reason="vacuity guard: no Ok-return found")
    witnesses = []
    obligations = discharged = 0
    for b in targets:
        obligations += 1
        r = ctx.check(s, enc.reach[b], g_out[b] == 0)
        if r == z3.sat:
            witnesses.append(dict(key="%s: success without %s" % (short_fn(fn.name), p.get("call_name", p["call"])),
                                  what="%s can return success (bb%d) on an execution that never called %s (%d such call sites in the function)" % (short_fn(fn.name), b, p.get("call_name", p["call"]), nsites)))
        elif r == z3.unsat:
            discharged += 1
        else:
            return dict(status="inconclusive", reason="solver unknown")
    uniq = {}
    for w in witnesses:
        uniq.setdefault(w["key"], w)
    return dict(status="failed" if uniq else "held", witnesses=list(uniq.values()), obligations=obligations, discharged=discharged,
                functions=[fn.name], details=["%d success returns, %d matching call sites" % (len(targets), nsites)])


KINDS = {
    "must_call": q_must_call,
    "bounds": q_bounds,
    "alloc_bound": q_alloc_bound,
    "float_guard": q_float_guard,
    "guarded": q_guarded,
    "no_error_after": q_no_error_after,
    "arg_flow": q_arg_flow,
    "reach_allow": q_reach_allow,
    "loop_one_push": q_loop_one_push,
    "dominates": q_dominates,
    "string_set": q_string_set,
}
