"""Parser for rustc's textual MIR dump (-Zunpretty=mir).  Every basic block of every function
in the dump must parse; unknown terminators abort (self-check of Engine M)."""
import re


class Block:
    __slots__ = ("id", "cleanup", "stmts", "term", "succ")

    def __init__(self, bid, cleanup):
        self.id = bid
        self.cleanup = cleanup
        self.stmts = []      # list of (dest, rhs) raw strings, or (None, text)
        self.term = None     # dict(kind=..., ...)
        self.succ = []       # non-cleanup successors (list of (target, label))


class Func:
    def __init__(self, name, sig):
        self.name = name
        self.sig = sig
        self.blocks = {}
        self.locals = {}     # _n -> type string
        self.debug = {}      # source name -> place
        self.args = []
        self.promoted = {}

    def short(self):
        return self.name


FN_RE = re.compile(r"^fn (.*?)\((.*)\) -> (.*) \{$")
FN_RE2 = re.compile(r"^fn (.*?)\((.*)\) \{$")
BB_RE = re.compile(r"^    bb(\d+)( \(cleanup\))?: \{$")
LET_RE = re.compile(r"^\s+let (?:mut )?(_\d+): (.*);$")
DEBUG_RE = re.compile(r"^\s+debug (\S+) => (.*);$")
TARGETS_RE = re.compile(r"\[(.*)\]$")


def split_top(s, sep=","):
    """split on sep at nesting depth 0 of ()[]{}<> and outside string literals"""
    out, depth, cur, i, instr = [], 0, [], 0, False
    while i < len(s):
        c = s[i]
        if instr:
            cur.append(c)
            if c == "\\":
                i += 1
                if i < len(s):
                    cur.append(s[i])
            elif c == '"':
                instr = False
        elif c == '"':
            instr = True
            cur.append(c)
        elif c in "([{":
            depth += 1
            cur.append(c)
        elif c in ")]}":
            depth -= 1
            cur.append(c)
        elif c == "<" and (i == 0 or s[i - 1] != "-"):
            # generic bracket, not "->" ; "<" as comparison does not occur in operand lists
            depth += 1
            cur.append(c)
        elif c == ">" and (i == 0 or s[i - 1] not in "-="):
            depth -= 1
            cur.append(c)
        elif c == sep and depth == 0:
            out.append("".join(cur).strip())
            cur = []
        else:
            cur.append(c)
        i += 1
    if "".join(cur).strip():
        out.append("".join(cur).strip())
    return out


def parse_targets(t):
    """'[return: bb6, unwind: bb164]' -> dict"""
    d = {}
    for part in t.split(","):
        part = part.strip()
        if ":" in part:
            k, v = part.split(":", 1)
            d[k.strip()] = v.strip()
        else:
            ws = part.split()
            if len(ws) == 2:
                d[ws[0]] = ws[1]
    return d


def find_call_split(rhs):
    """split 'callee(args)' at the parenthesis that opens the argument list (last top-level group)"""
    # walk from the end: find matching '(' of the final ')'
    if not rhs.endswith(")"):
        return None
    depth, i, instr = 0, len(rhs) - 1, False
    while i >= 0:
        c = rhs[i]
        if c == '"':
            # naive: toggle; escaped quotes inside const strings are rare in callee position
            bs = 0
            j = i - 1
            while j >= 0 and rhs[j] == "\\":
                bs += 1
                j -= 1
            if bs % 2 == 0:
                instr = not instr
        elif not instr:
            if c == ")":
                depth += 1
            elif c == "(":
                depth -= 1
                if depth == 0:
                    return rhs[:i], rhs[i + 1:-1]
        i -= 1
    return None


def parse_term(line):
    s = line.strip().replace("'\"'", "'\\x22'")
    if s.endswith(";"):
        s = s[:-1]
    if s == "return":
        return dict(kind="return")
    if s == "unreachable":
        return dict(kind="unreachable")
    if s.startswith("resume") or s.startswith("unwind_terminate") or s.startswith("terminate"):
        return dict(kind="resume")
    m = re.match(r"^goto -> bb(\d+)$", s)
    if m:
        return dict(kind="goto", target=int(m.group(1)))
    m = re.match(r"^switchInt\((.*)\) -> \[(.*)\]$", s)
    if m:
        arms = []
        for part in m.group(2).split(","):
            k, v = part.strip().rsplit(":", 1)
            arms.append((k.strip(), int(v.strip()[2:])))
        return dict(kind="switch", operand=m.group(1).strip(), arms=arms)
    m = re.match(r"^drop\((.*)\) -> \[(.*)\]$", s)
    if m:
        t = parse_targets(m.group(2))
        return dict(kind="drop", place=m.group(1), target=int(t["return"][2:]))
    m = re.match(r"^drop\((.*)\) -> bb(\d+)$", s)
    if m:
        return dict(kind="drop", place=m.group(1), target=int(m.group(2)))
    m = re.match(r"^assert\((.*)\) -> \[(.*)\]$", s)
    if m:
        t = parse_targets(m.group(2))
        args = split_top(m.group(1))
        return dict(kind="assert", cond=args[0], msg=args[1] if len(args) > 1 else "", args=args[2:],
                    target=int(t["success"][2:]))
    m = re.match(r"^assert\((.*)\) -> bb(\d+)$", s)
    if m:
        args = split_top(m.group(1))
        return dict(kind="assert", cond=args[0], msg=args[1] if len(args) > 1 else "", args=args[2:],
                    target=int(m.group(2)))
    # call: DEST = callee(args) -> [return: bbN, unwind ...]   |  -> bbN (diverging, cleanup)  | -> unwind continue
    m = re.match(r"^(.*?) = (.*) -> (\[.*\]|bb\d+|unwind \w+)$", s)
    if m:
        dest, rhs, tg = m.group(1), m.group(2), m.group(3)
        cs = find_call_split(rhs)
        if cs:
            callee, args = cs
            target = None
            if tg.startswith("["):
                t = parse_targets(tg[1:-1])
                if "return" in t:
                    target = int(t["return"][2:])
            return dict(kind="call", dest=dest.strip(), callee=callee.strip(), args=split_top(args), target=target)
    m = re.match(r"^(.*) -> (\[.*\]|bb\d+|unwind \w+)$", s)
    if m:
        # call without destination binding ("_0 = " always present in practice) - tail forms
        cs = find_call_split(m.group(1))
        if cs:
            callee, args = cs
            tg = m.group(2)
            target = None
            if tg.startswith("["):
                t = parse_targets(tg[1:-1])
                if "return" in t:
                    target = int(t["return"][2:])
            return dict(kind="call", dest=None, callee=callee.strip(), args=split_top(args), target=target)
    return None


class FuncMap(dict):
    """name -> Func, plus `const_lits`: last path segment of one-line const items
    (`const path::NAME: T = const <literal>;`) -> literal operand text (None if ambiguous)"""
    def __init__(self):
        super().__init__()
        self.const_lits = {}


def parse_mir(path):
    funcs = FuncMap()
    cur = None
    blk = None
    pending = None
    problems = []
    with open(path, errors="replace") as f:
        lines = f.read().split("\n")
    i = 0
    n = len(lines)
    while i < n:
        line = lines[i]
        i += 1
        if cur is None:
            m = FN_RE.match(line) or FN_RE2.match(line)
            if m:
                cur = Func(m.group(1), line)
                for a in split_top(m.group(2)):
                    am = re.match(r"^(_\d+): (.*)$", a)
                    if am:
                        cur.args.append(am.group(1))
                        cur.locals[am.group(1)] = am.group(2)
                if FN_RE.match(line):
                    cur.locals["_0"] = m.group(3)
                funcs.setdefault(cur.name, cur)
            elif line.startswith("const ") or line.startswith("static ") or line.startswith("promoted["):
                # promoted / const bodies: parse like a function so their blocks are checked too
                m1 = re.match(r"^const (?:.*::)?([A-Z][A-Z0-9_]*): [\w:<>]+ = (const [^;{]+);$", line)
                if m1:
                    nm, lit = m1.group(1), m1.group(2).strip()
                    funcs.const_lits[nm] = lit if funcs.const_lits.get(nm, lit) == lit else None
                m2 = re.match(r"^(?:const|static(?: mut)?) (.*): (.*?) = \{$", line)
                if m2:
                    cur = Func("const " + m2.group(1), line)
                    cur.locals["_0"] = m2.group(2)
                    funcs.setdefault(cur.name, cur)
            continue
        if line == "}":
            cur = None
            blk = None
            continue
        m = BB_RE.match(line)
        if m:
            blk = Block(int(m.group(1)), bool(m.group(2)))
            cur.blocks[blk.id] = blk
            continue
        if blk is None:
            m = LET_RE.match(line)
            if m:
                cur.locals[m.group(1)] = m.group(2)
                continue
            m = DEBUG_RE.match(line)
            if m:
                cur.debug[m.group(1)] = m.group(2)
            continue
        if line == "    }":
            if blk.term is None:
                problems.append((cur.name, blk.id, "block without terminator"))
            blk = None
            continue
        s = line.strip()
        if not s or s.startswith("//") or s.startswith("scope") or s.startswith("debug ") or s.startswith("let "):
            continue
        t = parse_term(s) if (" -> " in s or s in ("return;", "unreachable;", "resume;") or
                              s.startswith(("goto", "switchInt", "unwind_terminate", "terminate"))) else None
        if t is not None:
            blk.term = t
            continue
        if " -> " in s and not s.startswith("_") and "=" not in s:
            problems.append((cur.name, blk.id, "unparsed terminator: " + s[:120]))
            continue
        # statement
        if s.endswith(";"):
            s = s[:-1]
        m = re.match(r"^(.*?) = (.*)$", s)
        if m and not s.startswith(("StorageLive", "StorageDead", "nop", "Deinit", "Retag", "PlaceMention", "FakeRead", "AscribeUserType", "Coverage", "ConstEvalCounter", "BackwardIncompatibleDropHint")):
            blk.stmts.append((m.group(1).strip(), m.group(2).strip()))
        else:
            blk.stmts.append((None, s))
    # successors
    for fn in funcs.values():
        for b in fn.blocks.values():
            t = b.term
            if t is None:
                continue
            k = t["kind"]
            if k == "goto":
                b.succ = [(t["target"], "goto")]
            elif k == "switch":
                b.succ = [(tg, val) for (val, tg) in t["arms"]]
            elif k in ("drop", "assert"):
                b.succ = [(t["target"], k)]
            elif k == "call":
                b.succ = [(t["target"], "ret")] if t["target"] is not None else []
            else:
                b.succ = []
    return funcs, problems
