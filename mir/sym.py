"""Engine M core: symbolic encoding of one MIR function body (acyclic fragment, back edges cut,
loop-modified locals havocked at the loop head) into z3 terms.

  reach[bb]            Bool: block bb is reached
  val[bb][local]       value of a tracked local on entry to bb (Bool / Int / String terms)
  site[bb]             fresh variable standing for the result of the call that terminates bb

Calls are uninterpreted (fresh result per call site) except for a small reviewed table of
std functions with obvious semantics (string equality against constants, Option::is_some on a
tracked discriminant, Not/Eq on scalars, references as aliases)."""
import re
import z3

STR_T = z3.StringSort()


INT_RANGES = {
    "u8": (0, 2**8 - 1), "u16": (0, 2**16 - 1), "u32": (0, 2**32 - 1), "u64": (0, 2**64 - 1), "u128": (0, 2**128 - 1), "usize": (0, 2**64 - 1),
    "i8": (-2**7, 2**7 - 1), "i16": (-2**15, 2**15 - 1), "i32": (-2**31, 2**31 - 1), "i64": (-2**63, 2**63 - 1), "i128": (-2**127, 2**127 - 1), "isize": (-2**63, 2**63 - 1),
}


def is_boolish(t):
    return t == "bool"


def is_intish(t):
    return t in ("isize", "usize", "u8", "u16", "u32", "u64", "i8", "i16", "i32", "i64", "u128", "i128", "char")


def is_strish(t):
    t = t.replace("&'static ", "&").replace("&mut ", "&")
    while t.startswith("&"):
        t = t[1:]
    return t in ("str", "std::string::String", "String") or t.startswith("std::borrow::Cow<'_, str>") or t.startswith("std::borrow::Cow<")


def enum_id(name):
    """stable small integer for an enum variant path (last two segments)"""
    import zlib
    segs = name.split("::")
    return zlib.crc32("::".join(segs[-2:]).encode()) % 1000003


class Glob:
    """atoms shared by all encodings of one query"""
    def __init__(self):
        self.PASSWORD_SET = z3.Bool("PASSWORD_SET")
        self.CONN_STATE = z3.Int("CONN_STATE")
        self.AUTHENTICATED = z3.IntVal(enum_id("ConnectionState::Authenticated"))
        self.IN_TRANSACTION = z3.Bool("IN_TRANSACTION")
        self.input_calls = []     # regexes of callees whose integer results are INPUTS (like str::parse): e.g. length fields read from a file
        self.min_len = {}         # source name of a slice parameter -> minimal length (documented precondition)
        self.inline = []          # regexes of callee names that are evaluated by inlining their MIR
        self.inline_depth = 0


def is_enumish(t):
    return t is not None and t.replace("&", "").strip().endswith("ConnectionState")


class Enc:
    def __init__(self, fn, funcs=None, glob=None, bind=None):
        self.bind = bind or {}
        self.fn = fn
        self.funcs = funcs or {}
        self.glob = glob or Glob()
        self.ref_of = {}
        self.ref_base = {}        # local holding a reference -> base object ("_k" or "*_k") it points to
        self.mut_ref = {}         # local holding a &mut reference -> base object
        self.origin = {}          # local -> "parsed" (result of str::parse / from_str_radix) | "argval" (by-value parameter)
        self.blocks = {b.id: b for b in fn.blocks.values() if not b.cleanup}
        self.reach = {}
        self.val = {}
        self.site = {}       # bb -> z3 var of call result
        self.site_kind = {}
        self.edge = {}       # (p, s) -> z3 Bool condition (given reach[p])
        self.fresh_n = 0
        self.extra = []      # side constraints
        self.back_edges = set()
        self.order = []
        self.arg_terms = {}
        self.modelled_flags = set()
        self.len_terms = []       # every term that is the length of an existing slice / collection
        self._prepare()
        self._run()

    # ------------------------------------------------------------ helpers
    def fresh(self, sort, hint):
        self.fresh_n += 1
        name = "%s!%d" % (hint, self.fresh_n)
        if sort == "bool":
            return z3.Bool(name)
        if sort == "int":
            v = z3.Int(name)
            if hint.startswith("len"):
                # slice / Vec lengths never exceed isize::MAX
                self.extra.append(z3.And(v >= 0, v <= 2**63 - 1))
                self.len_terms.append(v)
            elif hint.startswith("u:"):
                self.extra.append(v >= 0)
            m = re.match(r"^(?:u:)?ty:(\w+):", hint)
            if m and m.group(1) in INT_RANGES:
                lo, hi = INT_RANGES[m.group(1)]
                self.extra.append(z3.And(v >= lo, v <= hi))
            return v
        if sort == "str":
            return z3.String(name)
        if sort == "fp":
            # IEEE-754 binary64: NaN, infinities and signed zeros are values of the sort
            return z3.FP(name, z3.Float64())
        if sort == "enum":
            # a ConnectionState value that is not a constant is the state of the connection the
            # function works on (single-connection assumption, stated in the claim)
            return self.glob.CONN_STATE
        return None

    def sort_of_type(self, t):
        if t is None:
            return None
        if is_boolish(t):
            return "bool"
        if is_intish(t):
            return "int"
        if is_strish(t):
            return "str"
        if is_enumish(t):
            return "enum"
        if t == "f64":
            return "fp"
        return None

    def ltype(self, local):
        return self.fn.locals.get(local)

    def _prepare(self):
        # DFS for back edges + topological order
        color = {}
        order = []
        entry = 0
        stack = [(entry, iter([s for s, _ in self.blocks[entry].succ if s in self.blocks]))]
        color[entry] = 1
        while stack:
            node, it = stack[-1]
            adv = False
            for s in it:
                if color.get(s, 0) == 0:
                    color[s] = 1
                    stack.append((s, iter([x for x, _ in self.blocks[s].succ if x in self.blocks])))
                    adv = True
                    break
                elif color[s] == 1:
                    self.back_edges.add((node, s))
            if not adv:
                color[node] = 2
                order.append(node)
                stack.pop()
        self.order = list(reversed(order))
        self.preds = {b: [] for b in self.blocks}
        for b in self.order:
            for s, lab in self.blocks[b].succ:
                if s in self.blocks and (b, s) not in self.back_edges and color.get(s) == 2:
                    self.preds[s].append(b)
        # loop bodies: for back edge (t,h): nodes reachable from h that reach t
        self.havoc_at = {}
        self.loop_bodies = {}
        if self.back_edges:
            succs = {b: [s for s, _ in self.blocks[b].succ if s in self.blocks] for b in self.blocks}
            rpreds = {b: [] for b in self.blocks}
            for b, ss in succs.items():
                for s in ss:
                    rpreds[s].append(b)
            for (t, h) in self.back_edges:
                # backward from t until h
                body = {h, t}
                work = [t]
                while work:
                    x = work.pop()
                    if x == h:
                        continue
                    for p in rpreds[x]:
                        if p not in body:
                            body.add(p)
                            work.append(p)
                assigned = set()
                for b in body:
                    blk = self.blocks[b]
                    for d, _ in blk.stmts:
                        if d:
                            m = re.match(r"^\(?\*?(_\d+)", d)
                            if m:
                                assigned.add(m.group(1))
                    if blk.term and blk.term["kind"] == "call" and blk.term.get("dest"):
                        m = re.match(r"^\(?\*?(_\d+)", blk.term["dest"])
                        if m:
                            assigned.add(m.group(1))
                self.havoc_at.setdefault(h, set()).update(assigned)
                self.loop_bodies.setdefault(h, set()).update(body)

    # ------------------------------------------------------------ operand evaluation
    def const_term(self, txt):
        txt = txt.strip()
        m = re.match(r'^const "((?:[^"\\]|\\.)*)"$', txt)
        if m:
            return z3.StringVal(bytes(m.group(1), "utf-8").decode("unicode_escape"))
        if txt == "const true":
            return z3.BoolVal(True)
        if txt == "const false":
            return z3.BoolVal(False)
        m = re.match(r"^const (-?\d+)_(?:[iu](?:8|16|32|64|128|size))$", txt)
        if m:
            return z3.IntVal(int(m.group(1)))
        m = re.match(r"^const (?:core::num::<impl )?([iu](?:8|16|32|64|128|size))>?::(MIN|MAX)$", txt)
        if m:
            lo, hi = INT_RANGES[m.group(1)]
            return z3.IntVal(lo if m.group(2) == "MIN" else hi)
        m = re.match(r"^const (-?\d+(?:\.\d+)?(?:[eE][+-]?\d+)?)f64$", txt)
        if m:
            return z3.FPVal(float(m.group(1)), z3.Float64())
        m = re.match(r"^const (?:core::)?f64::(INFINITY|NEG_INFINITY|NAN|MAX|MIN)$", txt)
        if m:
            return {"INFINITY": z3.fpPlusInfinity(z3.Float64()), "NEG_INFINITY": z3.fpMinusInfinity(z3.Float64()),
                    "NAN": z3.fpNaN(z3.Float64()), "MAX": z3.FPVal(1.7976931348623157e308, z3.Float64()),
                    "MIN": z3.FPVal(-1.7976931348623157e308, z3.Float64())}[m.group(1)]
        m = re.match(r"^const '(.)'$", txt)
        if m:
            return z3.IntVal(ord(m.group(1)))
        m = re.match(r"^const (.*::promoted\[\d+\])$", txt)
        if m:
            return self.promoted_value(m.group(1))
        m = re.match(r"^const ((?:\w+::)+)([A-Z][A-Z0-9_]*)$", txt)
        if m:
            v = self.named_const(m.group(2))
            if v is not None:
                return v
        m = re.match(r"^(?:const )?((?:[\w:]*::)?ConnectionState::[A-Z]\w*)$", txt)
        if m:
            return z3.IntVal(enum_id(m.group(1)))
        return None

    _NAMED = {}

    def named_const(self, name):
        """value of an integer `const NAME: T = <expr>` item whose body is in the dump (evaluated by
        encoding the body; accepted only if it simplifies to one integer literal and NAME is unique)"""
        key = (id(self.funcs), name)
        if key in Enc._NAMED:
            return Enc._NAMED[key]
        Enc._NAMED[key] = None
        lit = getattr(self.funcs, "const_lits", {}).get(name)
        if lit and not re.match(r"^const (?:\w+::)+[A-Z]", lit):
            v = self.const_term(lit)
            if v is not None:
                Enc._NAMED[key] = v
                return v
        f = self.funcs.get("const " + name)
        if f is not None and self.glob.inline_depth < 3:
            try:
                g = Glob()
                g.inline_depth = self.glob.inline_depth + 1
                e = Enc(f, self.funcs, g)
                rets = [b for b in e.order if e.blocks[b].term and e.blocks[b].term["kind"] == "return"]
                if len(rets) == 1:
                    v = e.out_state[rets[0]].get("_0")
                    if v is not None:
                        v = z3.simplify(v)
                        if z3.is_int_value(v) or z3.is_fp_value(v):
                            Enc._NAMED[key] = v
            except Exception:
                pass
        return Enc._NAMED[key]

    def promoted_value(self, path):
        suffix = "::".join(path.split("::")[-2:])
        cands = [f for n, f in self.funcs.items() if n.startswith("const ") and n.endswith(suffix)]
        if len(cands) != 1:
            return None
        f = cands[0]
        if len(f.blocks) != 1:
            return None
        st = {}
        for d, rhs in f.blocks[0].stmts:
            if d and re.match(r"^_\d+$", d):
                v = self.operand(st, rhs)
                if v is not None:
                    st[d] = v
        return st.get("_0")

    def operand(self, st, txt, want=None):
        """value of an operand text in state st (dict local->term).  None if untracked."""
        txt = txt.strip()
        c = self.const_term(txt)
        if c is not None:
            return c
        m = re.match(r"^(?:copy |move )?(_\d+)$", txt)
        if m:
            return st.get(m.group(1))
        m = re.match(r"^(?:copy |move )?\(\*(_\d+)\)$", txt)   # deref of a reference: alias
        if m:
            return st.get(m.group(1))
        m = re.match(r"^&(?:mut )?(?:raw (?:const|mut) )?(_\d+)$", txt)
        if m:
            return st.get(m.group(1))
        m = re.match(r"^&(?:mut )?\(\*(_\d+)\)$", txt)
        if m:
            return st.get(m.group(1))
        # tracked places: field projections used as scalar sources get one variable per place text
        m = re.match(r"^(?:copy |move |&(?:mut )?)?(\(.*\))$", txt)
        if m:
            key = "place:" + m.group(1)
            if key not in st:
                ty = m.group(1).rsplit(": ", 1)[-1].rstrip(")") if ": " in m.group(1) else None
                srt = self.sort_of_type(ty)
                if srt:
                    root = re.search(r"(_\d+)", m.group(1))
                    org = self.origin.get(root.group(1)) if root else None
                    st[key] = self.fresh(srt, "ty:%s:place%s" % ((ty or "?"), ("_" + org) if org else ""))
            return st.get(key)
        return None

    def rvalue(self, st, dest, rhs, bb, idx):
        """term for an assignment rhs, or None (untracked -> fresh if dest is tracked)"""
        v = self.operand(st, rhs)
        if v is not None:
            return v
        m = re.match(r"^((?:copy |move )?(.+?)) as ([iu](?:8|16|32|64|128|size)) \(IntToInt\)$", rhs)
        if m:
            # integer-to-integer cast, exact: identity when the source type fits into the target
            # type, two's-complement wrap-around ((a - lo) mod 2^w + lo) otherwise
            a = self.operand(st, m.group(1))
            if a is not None and z3.is_int(a):
                lo, hi = INT_RANGES[m.group(3)]
                sty = self.ltype(m.group(2)) if re.match(r"^_\d+$", m.group(2)) else None
                if z3.is_int_value(a):
                    return z3.IntVal((a.as_long() - lo) % (hi - lo + 1) + lo)
                if sty in INT_RANGES and INT_RANGES[sty][0] >= lo and INT_RANGES[sty][1] <= hi:
                    return a
                return (a - lo) % (hi - lo + 1) + lo
        m = re.match(r"^Neg\(((?:copy |move )?\S+)\)$", rhs)
        if m:
            # the overflow-checks=on dump asserts `x != MIN` before every signed negation
            a = self.operand(st, m.group(1))
            if a is not None and z3.is_int(a):
                return -a
        m = re.match(r"^Not\((.*)\)$", rhs)
        if m:
            a = self.operand(st, m.group(1))
            if a is not None and z3.is_bool(a):
                return z3.Not(a)
        m = re.match(r"^(Eq|Ne|Lt|Le|Gt|Ge|BitAnd|BitOr|BitXor|Add|Sub)\((.*)\)$", rhs)
        if m:
            from .parse import split_top
            ops = split_top(m.group(2))
            if len(ops) == 2:
                a, b = self.operand(st, ops[0]), self.operand(st, ops[1])
                if a is not None and b is not None and a.sort() == b.sort():
                    op = m.group(1)
                    try:
                        if z3.is_fp(a):
                            # IEEE comparisons: every ordered comparison with NaN is false, -0 == +0
                            f = {"Eq": z3.fpEQ, "Lt": z3.fpLT, "Le": z3.fpLEQ, "Gt": z3.fpGT, "Ge": z3.fpGEQ}.get(op)
                            if f:
                                return f(a, b)
                            if op == "Ne":
                                return z3.Not(z3.fpEQ(a, b))
                            return None
                        if op == "Eq":
                            return a == b
                        if op == "Ne":
                            return a != b
                        if z3.is_bool(a):
                            if op == "BitAnd":
                                return z3.And(a, b)
                            if op == "BitOr":
                                return z3.Or(a, b)
                            if op == "BitXor":
                                return z3.Xor(a, b)
                        if z3.is_int(a):
                            if op == "Lt":
                                return a < b
                            if op == "Le":
                                return a <= b
                            if op == "Gt":
                                return a > b
                            if op == "Ge":
                                return a >= b
                    except Exception:
                        return None
        m = re.match(r"^std::ops::Range::<usize> \{ start: (.*), end: (.*) \}$", rhs)
        if m:
            lo, hi = self.operand(st, m.group(1)), self.operand(st, m.group(2))
            if lo is not None and hi is not None:
                st["range:" + dest] = (lo, hi)
            return None
        m = re.match(r"^(?:Len|PtrMetadata)\((?:copy |move )?\(?\*?(_\d+)\)?\)$", rhs)
        if m:
            key = "len:" + m.group(1)
            if key not in st:
                st[key] = self.fresh("int", "len_%s_bb%d" % (m.group(1), bb))
            return st[key]
        m = re.match(r"^(Add|Sub|Rem|Div)\((.*)\)$", rhs)
        if m:
            from .parse import split_top
            ops = split_top(m.group(2))
            if len(ops) == 2:
                a, b2 = self.operand(st, ops[0]), self.operand(st, ops[1])
                if a is not None and b2 is not None and z3.is_int(a) and z3.is_int(b2):
                    op = m.group(1)
                    if op == "Add":
                        return a + b2
                    if op == "Sub":
                        return a - b2
                    if z3.is_int_value(b2) and b2.as_long() > 0:
                        # unsigned operands: truncating = euclidean
                        return a % b2 if op == "Rem" else a / b2
        m = re.match(r"^Mul\((.*)\)$", rhs)
        if m:
            from .parse import split_top
            ops = split_top(m.group(1))
            if len(ops) == 2:
                a, b2 = self.operand(st, ops[0]), self.operand(st, ops[1])
                if a is not None and b2 is not None and z3.is_int(a) and z3.is_int(b2) and (z3.is_int_value(a) or z3.is_int_value(b2)):
                    return a * b2       # linear: one factor is a constant
        m = re.match(r"^(Add|Sub|Mul)WithOverflow\((.*)\)$", rhs)
        if m:
            from .parse import split_top
            ops = split_top(m.group(2))
            ty = self.ltype(dest) or ""
            mt = re.match(r"^\((\w+), bool\)$", ty)
            if len(ops) == 2 and mt:
                a, b2 = self.operand(st, ops[0]), self.operand(st, ops[1])
                if m.group(1) == "Mul" and not (a is not None and b2 is not None and (z3.is_int_value(a) or z3.is_int_value(b2))):
                    a = None
                if a is not None and b2 is not None and z3.is_int(a) and z3.is_int(b2):
                    r = a + b2 if m.group(1) == "Add" else (a - b2 if m.group(1) == "Sub" else a * b2)
                    st["place:(%s.0: %s)" % (dest, mt.group(1))] = r
                    if mt.group(1) in INT_RANGES:
                        lo, hi = INT_RANGES[mt.group(1)]
                        st["place:(%s.1: bool)" % dest] = z3.Or(r < lo, r > hi)
                        self.modelled_flags.add("place:(%s.1: bool)" % dest)
            return None
        m = re.match(r"^discriminant\((.*)\)$", rhs)
        if m:
            key = "disc:" + m.group(1).strip()
            if key not in st:
                st[key] = self.fresh("int", "disc_bb%d_%d" % (bb, idx))
            return st[key]
        return None

    # ------------------------------------------------------------ call semantics
    def call_value(self, st, term, bb):
        callee = term["callee"]
        args = term["args"]
        dest = term.get("dest")
        dsort = self.sort_of_type(self.ltype(dest)) if dest and re.match(r"^_\d+$", dest) else None
        a = [self.operand(st, x) for x in args]
        # string equality
        if re.search(r"PartialEq.*>::(eq|ne)$", callee) and len(a) == 2 and a[0] is not None and a[1] is not None \
                and a[0].sort() == STR_T and a[1].sort() == STR_T:
            r = (a[0] == a[1])
            return z3.Not(r) if callee.endswith("::ne") else r
        # string views keep the value
        if re.search(r"(String::as_str|<std::string::String as Deref>::deref|<String as Deref>::deref|<Cow<'_, str> as Deref>::deref|"
                     r"<String as AsRef<str>>::as_ref|<str as AsRef<str>>::as_ref|String::as_mut_str|<String as Borrow<str>>::borrow)$", callee) \
                and a and a[0] is not None and a[0].sort() == STR_T:
            return a[0]
        if re.search(r"<(String|std::string::String) as Clone>::clone$", callee) and a and a[0] is not None:
            return a[0]
        # requirepass atom
        m = re.search(r"Option::<(?:std::string::)?String>::(is_some|is_none)$", callee)
        if m and args:
            ml = re.match(r"^(?:copy |move )?(_\d+)$", args[0].strip())
            place = self.ref_of.get(ml.group(1)) if ml else None
            if place and "NetworkConfig" in place:
                return self.glob.PASSWORD_SET if m.group(1) == "is_some" else z3.Not(self.glob.PASSWORD_SET)
        # fieldless enum comparison
        if re.search(r"<ConnectionState as PartialEq>::(eq|ne)$", callee) and len(a) == 2 and a[0] is not None and a[1] is not None:
            r = (a[0] == a[1])
            return z3.Not(r) if callee.endswith("::ne") else r
        if re.search(r"<ConnectionState as Clone>::clone$", callee) and a and a[0] is not None:
            return a[0]
        # with_connection(id, closure) -> Option<bool>: value of the closure body (if the connection exists)
        m = re.search(r"with_connection::<\{closure@([^}]*)\}, bool>$", callee)
        if m:
            cv = self.closure_bool(m.group(1))
            if cv is not None:
                return ("optbool", self.fresh("bool", "conn_exists_bb%d" % bb), cv)
        # small pure functions of the crate named in glob.inline: evaluated by encoding their body
        if self.glob.inline and self.glob.inline_depth < 3 and any(re.search(x, callee) for x in self.glob.inline):
            last = callee.split("::")[-1]
            cands = [f for n, f in self.funcs.items() if n.split("::")[-1] == last and not n.startswith("const ")
                     and len(f.args) == len(args)]
            if len(cands) == 1:
                bind = {}
                for formal, actual in zip(cands[0].args, a):
                    if actual is not None:
                        bind[formal] = actual
                self.glob.inline_depth += 1
                try:
                    e = Enc(cands[0], self.funcs, self.glob, bind=bind)
                finally:
                    self.glob.inline_depth -= 1
                rets = [b2 for b2 in e.order if e.blocks[b2].term and e.blocks[b2].term["kind"] == "return"]
                if len(rets) == 1:
                    v = e.out_state[rets[0]].get("_0")
                    if v is not None:
                        self.extra.extend(e.extra)
                        return v
        mm = re.search(r"(?:std::cmp::|core::cmp::|<[iu](?:8|16|32|64|size) as (?:std::cmp::|core::cmp::)?Ord>::)(min|max)(?:::<[iu](?:8|16|32|64|size)>)?$", callee)
        if mm and len(a) == 2 and a[0] is not None and a[1] is not None and z3.is_int(a[0]) and z3.is_int(a[1]):
            return z3.If(a[0] <= a[1], a[0], a[1]) if mm.group(1) == "min" else z3.If(a[0] >= a[1], a[0], a[1])
        mm = re.search(r"^(?:core::num::<impl )?([iu](?:8|16|32|64|size))>?::(saturating_sub|saturating_add|wrapping_neg|unsigned_abs|abs)$", callee)
        if mm and a and all(x is not None and z3.is_int(x) for x in a):
            lo, hi = INT_RANGES[mm.group(1)]
            if mm.group(2) == "saturating_sub" and len(a) == 2:
                r = a[0] - a[1]
                return z3.If(r < lo, z3.IntVal(lo), z3.If(r > hi, z3.IntVal(hi), r))
            if mm.group(2) == "saturating_add" and len(a) == 2:
                r = a[0] + a[1]
                return z3.If(r < lo, z3.IntVal(lo), z3.If(r > hi, z3.IntVal(hi), r))
            if mm.group(2) == "unsigned_abs" and len(a) == 1:
                return z3.If(a[0] < 0, -a[0], a[0])
        if re.search(r"Option::<bool>::unwrap_or$", callee) and len(args) == 2:
            ml = re.match(r"^(?:copy |move )?(_\d+)$", args[0].strip())
            ob = st.get("opt:" + ml.group(1)) if ml else None
            d = self.operand(st, args[1])
            if ob is not None and d is not None:
                return z3.If(ob[1], ob[2], d)
        return None

    def closure_bool(self, loc):
        """Bool term for the return value of a closure body (loop-free, returns bool)"""
        cands = [f for f in self.funcs.values() if f.args and ("{closure@%s}" % loc) in (f.locals.get(f.args[0]) or "")]
        if len(cands) != 1:
            return None
        e = Enc(cands[0], self.funcs, self.glob)
        rets = [b for b in e.order if e.blocks[b].term and e.blocks[b].term["kind"] == "return"]
        if len(rets) != 1:
            return None
        v = e.out_state[rets[0]].get("_0")
        if v is None or not z3.is_bool(v):
            return None
        self.extra.extend(e.extra)
        return v

    # ------------------------------------------------------------ main pass
    def _merge(self, b):
        ps = self.preds[b]
        if b == 0 or not ps:
            return {}
        if len(ps) == 1:
            st = dict(self.out_state[ps[0]])
        else:
            keys = set()
            for p in ps:
                keys.update(self.out_state[p].keys())
            st = {}
            for k in keys:
                vals = [(p, self.out_state[p].get(k)) for p in ps]
                if any(v is None for _, v in vals):
                    continue
                first = vals[0][1]
                if isinstance(first, tuple):
                    # structured facts (ranges, Option<bool>): kept only when all predecessors agree
                    if all(isinstance(v, tuple) and len(v) == len(first) and all(
                            (x is y) or (hasattr(x, "eq") and hasattr(y, "eq") and x.eq(y)) or x == y for x, y in zip(v, first)) for _, v in vals):
                        st[k] = first
                    continue
                if all(v.eq(first) for _, v in vals):
                    st[k] = first
                    continue
                if any(v.sort() != first.sort() for _, v in vals):
                    continue
                acc = vals[-1][1]
                for p, v in reversed(vals[:-1]):
                    acc = z3.If(z3.And(self.reach[p], self.edge[(p, b)]), v, acc)
                st[k] = acc
        for l in self.havoc_at.get(b, ()):
            st.pop(l, None)
            st.pop("range:" + l, None)
            srt = self.sort_of_type(self.ltype(l))
            if srt in ("bool", "int"):
                # arbitrary value at the loop head, but ONE value for all reads in this iteration
                st[l] = self.fresh(srt, "ty:%s:havoc_%s_bb%d" % ((self.ltype(l) or "?"), l, b))
            for k in [k for k in st if k.startswith("disc:") or k.startswith("place:")]:
                if re.search(r"\b%s\b" % re.escape(l), k):
                    st.pop(k, None)
        return st

    def _kill(self, st, local):
        """an assignment to `local` invalidates cached discriminants / places that mention it"""
        for k in [k for k in st if (k.startswith("disc:") or k.startswith("place:")) and re.search(r"\b%s\b" % re.escape(local), k)]:
            st.pop(k, None)
        st.pop("opt:" + local, None)
        st.pop("range:" + local, None)
        st.pop("len:" + local, None)
        st.pop("len:*" + local, None)

    def _run(self):
        self.out_state = {}
        for b in self.order:
            blk = self.blocks[b]
            if b == 0:
                self.reach[b] = z3.BoolVal(True)
            else:
                ps = self.preds[b]
                if not ps:
                    self.reach[b] = z3.BoolVal(False) if b not in self.havoc_at else z3.BoolVal(False)
                else:
                    self.reach[b] = z3.Or([z3.And(self.reach[p], self.edge[(p, b)]) for p in ps])
            st = self._merge(b)
            if b == 0:
                for a in self.fn.args:
                    aty = self.ltype(a) or ""
                    if not aty.startswith("&") and not aty.startswith("*"):
                        self.origin[a] = "argval"
                    elif aty.startswith("&mut"):
                        self.mut_ref[a] = "*" + a
                    if aty.startswith("&"):
                        self.ref_base[a] = "*" + a
                    srt = self.sort_of_type(self.ltype(a))
                    if a in self.bind:
                        st[a] = self.bind[a]
                        self.arg_terms[a] = st[a]
                    elif srt:
                        st[a] = self.fresh(srt, "ty:%s:arg%s" % ((self.ltype(a) or "?"), a))
                        self.arg_terms[a] = st[a]
            if b == 0 and self.glob.min_len:
                for nm, mn in self.glob.min_len.items():
                    pl = self.fn.debug.get(nm)
                    if pl and re.match(r"^_\d+$", pl) and pl in self.fn.args:
                        lv = self.fresh("int", "len_%s_param" % pl)
                        self.extra.append(lv >= mn)
                        st["len:" + pl] = lv
            self.val[b] = dict(st)
            for idx, (d, rhs) in enumerate(blk.stmts):
                if d is None:
                    continue
                md = re.match(r"^(_\d+)$", d)
                if not md:
                    # write through a projection / deref: kill what mentions the base
                    mb = re.search(r"(_\d+)", d)
                    if mb:
                        self._kill(st, mb.group(1))
                        if mb.group(1) in self.mut_ref:
                            st.pop("len:" + self.mut_ref[mb.group(1)], None)
                    continue
                local = md.group(1)
                mb_ = re.match(r"^&(mut )?(?:raw (?:const|mut) )?(_\d+|\(\*_\d+\))$", rhs)
                if mb_:
                    base = mb_.group(2)
                    base = ("*" + base[2:-1]) if base.startswith("(") else base
                    if base.startswith("*") and base[1:] in self.ref_base:
                        base = self.ref_base[base[1:]]      # reborrow through a reference local
                    self.ref_base[local] = base
                    if mb_.group(1):
                        self.mut_ref[local] = base
                        st.pop("len:" + base, None)
                else:
                    mv_ = re.match(r"^(?:copy |move )(_\d+)$", rhs)
                    if mv_:
                        for tab in (self.ref_base, self.mut_ref, self.origin):
                            if mv_.group(1) in tab:
                                tab[local] = tab[mv_.group(1)]
                    else:
                        # a field moved out of an input (by-value parameter / parse result) is an input
                        mp_ = re.match(r"^(?:copy |move )\((?:\(?\*?)*(_\d+)\b[^*]*\)$", rhs)
                        if mp_ and mp_.group(1) in self.origin and "(*" not in rhs:
                            self.origin[local] = self.origin[mp_.group(1)]
                        elif local in self.origin and not rhs.startswith("const "):
                            self.origin.pop(local, None)
                mr = re.match(r"^&(?:mut )?(\(.*\))$", rhs)
                if mr:
                    self.ref_of[local] = mr.group(1)
                else:
                    mr = re.match(r"^(?:copy |move )(_\d+)$", rhs)
                    if mr and mr.group(1) in self.ref_of:
                        self.ref_of[local] = self.ref_of[mr.group(1)]
                self._kill(st, local)
                v = self.rvalue(st, local, rhs, b, idx)
                mo = re.match(r"^(?:copy |move |&mut |&)(_\d+)$", rhs)
                ob = st.get("opt:" + mo.group(1)) if mo else None
                if mo and ("range:" + mo.group(1)) in st:
                    st["range:" + local] = st["range:" + mo.group(1)]
                if ob is not None:
                    st["opt:" + local] = ob
                if v is None:
                    srt = self.sort_of_type(self.ltype(local))
                    # reference to something tracked keeps its value; otherwise fresh
                    # the result of an operator the encoding does not model is arbitrary HERE but not
                    # in reality: marked `unm_` so that queries treat terms built from it as undecided
                    unm = "unm_" if re.match(r"^(Mul|Div|Rem|Shl|Shr|BitAnd|BitOr|BitXor|Add|Sub|Neg|Not|\w+WithOverflow)\(", rhs) or " as " in rhs else ""
                    hint = "ty:%s:%s%s_bb%d_%d" % ((self.ltype(local) or "?"), unm, local, b, idx)
                    v = self.fresh(srt, hint) if srt else None
                if v is not None:
                    st[local] = v
                else:
                    st.pop(local, None)
            t = blk.term
            k = t["kind"] if t else "none"
            if k == "call":
                dest = t.get("dest")
                v = self.call_value(st, t, b)
                # integer ranges: `for i in a..b` / `(a..b).step_by(n)`: every yielded i satisfies a <= i < b
                if dest and re.match(r"^_\d+$", dest) and t["args"]:
                    ma = re.match(r"^(?:copy |move )?(_\d+)$", t["args"][0].strip())
                    rng = st.get("range:" + ma.group(1)) if ma else None
                    if rng is not None:
                        if re.search(r"(as IntoIterator>::into_iter|as Iterator>::step_by)$", t["callee"]):
                            st.pop("range:" + dest, None)
                            if t["callee"].endswith("step_by") and len(t["args"]) == 2:
                                stp = self.operand(st, t["args"][1])
                                if stp is not None and z3.is_int_value(stp) and stp.as_long() > 0:
                                    rng = (rng[0], rng[1], stp)
                            self._pending_range = (dest, rng)
                        elif re.search(r"as Iterator>::next$", t["callee"]):
                            pv = self.fresh("int", "u:iter_bb%d" % b)
                            # the yielded value exists only when next() returned Some: the facts
                            # about it are guarded by the discriminant of the result (Some = 1)
                            dv = self.fresh("int", "disc_iter_bb%d" % b)
                            fact = z3.And(pv >= rng[0], pv < rng[1])
                            if len(rng) == 3:
                                fact = z3.And(fact, (pv - rng[0]) % rng[2] == 0)
                            self.extra.append(z3.Implies(dv == 1, fact))
                            self._pending_place = ("place:((%s as Some).0: usize)" % dest, pv)
                            self._pending_disc = ("disc:" + dest, dv)
                if isinstance(v, tuple) and dest and re.match(r"^_\d+$", dest):
                    self._kill(st, dest)
                    st["opt:" + dest] = v
                    v = None
                    st.pop(dest, None)
                elif dest and re.match(r"^_\d+$", dest):
                    self._kill(st, dest)
                    srt = self.sort_of_type(self.ltype(dest))
                    lenkey = None
                    if v is None and srt == "int" and re.search(r"::len$", t["callee"]) and len(t["args"]) == 1:
                        ml_ = re.match(r"^(?:copy |move )?(_\d+)$", t["args"][0].strip())
                        if ml_ and ml_.group(1) in self.ref_base:
                            # x.len() of an object that has not been borrowed mutably since the
                            # last len() call returns the same number
                            lenkey = "len:" + self.ref_base[ml_.group(1)]
                            v = st.get(lenkey)
                    if v is None and srt:
                        v = self.fresh(srt, "ty:%s:call_bb%d" % ((self.ltype(dest) or "?"), b))
                        if srt == "int" and re.search(r"::(len|count|capacity)$", t["callee"]):
                            self.extra.append(z3.And(v >= 0, v <= 2**63 - 1))
                            self.len_terms.append(v)
                    if lenkey:
                        st[lenkey] = v
                    if v is not None:
                        st[dest] = v
                        self.site[b] = v
                    else:
                        st.pop(dest, None)
                elif dest:
                    mb = re.search(r"(_\d+)", dest)
                    if mb:
                        self._kill(st, mb.group(1))
                if getattr(self, "_pending_range", None):
                    st["range:" + self._pending_range[0]] = self._pending_range[1]
                    self._pending_range = None
                if getattr(self, "_pending_place", None):
                    st[self._pending_place[0]] = self._pending_place[1]
                    self._pending_place = None
                if getattr(self, "_pending_disc", None):
                    st[self._pending_disc[0]] = self._pending_disc[1]
                    self._pending_disc = None
                # objects reachable through a &mut argument may have been modified: forget their length
                for x in t["args"]:
                    mm = re.match(r"^(?:move |copy )?(_\d+)$", x.strip())
                    if mm and mm.group(1) in self.mut_ref:
                        st.pop("len:" + self.mut_ref[mm.group(1)], None)
                if dest and re.match(r"^_\d+$", dest):
                    if re.search(r"::parse::<|::from_str_radix$|as FromStr>::from_str$", t["callee"]) or any(re.search(x, t["callee"]) for x in self.glob.input_calls):
                        self.origin[dest] = "parsed"
                    elif re.search(r"as Try>::branch$|(Result|Option)::<.*>::(unwrap|expect|unwrap_or|unwrap_or_default|ok|ok_or|map_err)(::<.*>)?$", t["callee"]) and t["args"]:
                        # the payload of a Result/Option keeps its provenance through `?`, unwrap, map_err ...
                        ma_ = re.match(r"^(?:copy |move )?(_\d+)$", t["args"][0].strip())
                        if ma_ and ma_.group(1) in self.origin:
                            self.origin[dest] = self.origin[ma_.group(1)]
                        else:
                            self.origin.pop(dest, None)
                    else:
                        self.origin.pop(dest, None)
            # edges
            for s, lab in blk.succ:
                if s not in self.blocks:
                    continue
                cond = z3.BoolVal(True)
                if k == "switch":
                    op = self.operand(st, t["operand"])
                    arms = t["arms"]
                    if op is None:
                        # unknown operand: one fresh int per switch so that arms stay mutually exclusive
                        key = "sw:%d" % b
                        if key not in st:
                            st[key] = self.fresh("int", "sw_bb%d" % b)
                        op = st[key]
                    if z3.is_bool(op):
                        opi = z3.If(op, z3.IntVal(1), z3.IntVal(0))
                    elif z3.is_int(op):
                        opi = op
                    else:
                        opi = self.fresh("int", "sw_bb%d" % b)
                    if lab == "otherwise":
                        others = [int(v) for v, _ in arms if v != "otherwise"]
                        cond = z3.And([opi != o for o in others]) if others else z3.BoolVal(True)
                    else:
                        cond = (opi == int(lab))
                    # several arms may target the same block: OR them
                    if (b, s) in self.edge:
                        cond = z3.Or(self.edge[(b, s)], cond)
                elif k == "assert":
                    cond = z3.BoolVal(True)   # success edge (panic edge is a separate query kind)
                # rustc emits `unreachable` only where reaching it would be UB (e.g. the
                # `otherwise` arm of an exhaustive discriminant switch): such edges are infeasible
                tt = self.blocks[s].term
                if tt and tt["kind"] == "unreachable" and not self.blocks[s].stmts:
                    cond = z3.BoolVal(False)
                self.edge[(b, s)] = cond
            self.out_state[b] = st

    # ------------------------------------------------------------ queries
    def call_sites(self, pattern=None):
        out = []
        for b in self.order:
            t = self.blocks[b].term
            if t and t["kind"] == "call":
                if pattern is None or re.search(pattern, t["callee"]):
                    out.append((b, t))
        return out

    def debug_value(self, name):
        """term of the (single-assignment) local bound to source variable `name`, or None"""
        place = self.fn.debug.get(name)
        if not place:
            return None
        if not re.match(r"^_\d+$", place):
            # captured variable of a closure / field projection: the place variable used by reads
            key = "place:" + (place if place.startswith("(") else "(" + place + ")")
            for b in self.order:
                v = self.out_state[b].get(key)
                if v is not None:
                    return v
            return None
        for b in self.order:
            v = self.out_state[b].get(place)
            if v is not None:
                return v
        return None
