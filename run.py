#!/usr/bin/env python3
"""Entry point of the /verif machinery.

  run.py check <Cxx> [--tier quick|thorough] [--only <harness-substring>] [--keep]
  run.py setup
  run.py manifest            (regenerate MANIFEST.json from the registry)
  run.py list

Exit codes: 0 property held on everything decided (known findings are printed as KNOWN-FINDING);
            1 a violation not listed in known_findings.json (line VIOLATION property=.. replay=..);
            2 inconclusive (timeout / OOM / compile error / non-reproducing counterexample) -
              never reported as success."""
import sys, os, json, time, argparse, shutil, traceback

VERIF = os.path.dirname(os.path.abspath(__file__))
sys.path.insert(0, VERIF)
from vlib import scratch, kanirun, findings, evidence, replay
import registry


def log(msg):
    sys.stdout.write(msg.rstrip("\n") + "\n")
    sys.stdout.flush()


def tier_ok(h_tier, tier):
    return h_tier == "quick" or tier == "thorough"


def cmd_check(args):
    pid = args.property
    tier = args.tier or os.environ.get("VERIF_TIER") or "quick"
    if tier not in ("quick", "thorough"):
        tier = "quick"
    seed = int(os.environ.get("VERIF_SEED", "0") or 0)
    t_start = time.time()
    kf = findings.load()
    # quick tier: a harness runs for its PRIMARY property (props[0]) and for the properties that
    # explicitly pick it (quick_also); every other property it serves runs it in the thorough tier
    def sel(x):
        if pid not in x.props or not tier_ok(x.tier, tier):
            return False
        return tier == "thorough" or x.props[0] == pid or pid in getattr(x, "quick_also", ())
    hs = [h for h in registry.HARNESSES if sel(h)]
    qs = [q for q in registry.MIR_QUERIES if sel(q)]
    if args.only:
        hs = [h for h in hs if args.only in h.name]
        qs = [q for q in qs if args.only in q.name]
    if not hs and not qs:
        log("no checks registered for %s" % pid)
        return 2
    # VERIF_SEED only permutes scheduling order (solver runs have nothing to randomise)
    import random
    rnd = random.Random(seed)
    rnd.shuffle(hs)
    work = scratch.mk_scratch(pid.lower())
    kres, mres, notes_by_group = [], [], {}
    viol, known, inconcl, gone = [], [], [], []
    try:
        # ---------------- Engine K
        groups = {}
        for h in hs:
            groups.setdefault(h.group, []).append(h)
        prepared = {}
        for g, ghs in groups.items():
            gd = os.path.join(work, "g_" + g)
            os.makedirs(gd)
            root = scratch.copy_repo(gd)
            spec = registry.GROUPS[g]
            try:
                notes = scratch.rewrite_for_kani(root, spec.get("family", "vec"), spec.get("shrinks"),
                                                 spec.get("overlays"), spec.get("subst"))
            except Exception as ex:
                for h in ghs:
                    r = kanirun.Result(h)
                    r.reason = "rewrite failed: %s" % ex
                    kres.append(r)
                continue
            notes_by_group[g] = notes
            prepared[g] = (root, gd)
        if prepared:
            any_root = next(iter(prepared.values()))[0]
            kanirun.ensure_deps_cache(any_root, log)

        def prog(r):
            log("  [K] %-44s %-12s %6.0fs  checks=%d failed=%d %s" % (
                r.h.name, r.status, r.wall, r.checks_total, r.checks_failed, r.reason[:160]))
        # run all groups' harnesses through one pool
        from concurrent.futures import ThreadPoolExecutor
        allh = [(prepared[h.group][0], h, prepared[h.group][1]) for h in hs if h.group in prepared]
        allh.sort(key=lambda x: -x[1].timeout)
        with ThreadPoolExecutor(max_workers=kanirun.MAX_PAR) as ex:
            futs = [ex.submit(kanirun.run_harness, root, h, gd) for (root, h, gd) in allh]
            for f in futs:
                r = f.result()
                prog(r)
                kres.append(r)
        # ---------------- Engine M
        if qs:
            from mir import engine as mir_engine
            mres = mir_engine.run_queries(qs, work, log)
        # ---------------- classify
        for r in kres:
            exp = r.h.expect
            if r.status == "inconclusive":
                inconcl.append((r.h.name, r.reason))
            elif r.status == "held":
                if exp.startswith("kf:"):
                    gone.append((r.h.name, exp[3:]))
            else:  # failed
                fid = exp[3:] if exp.startswith("kf:") else None
                if fid and findings.matches(kf, fid, pid, r):
                    known.append((fid, findings.what(kf, fid)))
                else:
                    viol.append(("K", r))
        for m in mres:
            if m.status == "inconclusive":
                inconcl.append((m.q.name, m.reason))
            elif m.status == "held":
                if m.q.expect.startswith("kf:"):
                    gone.append((m.q.name, m.q.expect[3:]))
            else:
                # each witness is matched separately so that a *different* violation is still reported
                unlisted = []
                for w in m.witnesses:
                    fid = findings.match_mir(kf, pid, m.q.name, w)
                    if fid:
                        known.append((fid, findings.what(kf, fid)))
                    else:
                        unlisted.append(w)
                if unlisted:
                    m.unlisted = unlisted
                    viol.append(("M", m))
        # ---------------- replay + report
        rc = 0
        nviol = 0
        for kind, r in viol:
            if kind == "K":
                if os.environ.get("VERIF_NO_REPLAY"):
                    path, reproduced, how = "(replay skipped: VERIF_NO_REPLAY)", None, "skipped"
                else:
                    path, reproduced, how = replay.replay_kani(r, prepared.get(r.h.group), work, log)
                if reproduced is False:
                    inconcl.append((r.h.name, "counterexample did not reproduce natively (%s)" % how))
                    continue
                nviol += 1
                log("VIOLATION property=%s replay=%s" % (pid, path))
                log("   harness %s: %s" % (r.h.name, "; ".join(
                    "%s [%s]" % (c["desc"], c["func"]) for c in r.failed_checks[:4])))
            else:
                path = replay.save_mir_witness(r, pid)
                nviol += 1
                log("VIOLATION property=%s replay=%s" % (pid, path))
                for w in r.unlisted[:6]:
                    log("   query %s: %s" % (r.q.name, w.get("what", "")))
        seen = set()
        for fid, what in known:
            if fid in seen:
                continue
            seen.add(fid)
            log("KNOWN-FINDING: property=%s %s [%s]" % (pid, what, fid))
        for name, fid in gone:
            log("note: harness/query %s expected known finding %s but it no longer reproduces "
                "(turn the entry into a fixed: line)" % (name, fid))
        for name, why in inconcl:
            log("INCONCLUSIVE %s: %s" % (name, why))
        if nviol:
            rc = 1
        elif inconcl:
            rc = 2
        if os.environ.get("VERIF_REPO") or os.environ.get("VERIF_NO_EVIDENCE") or args.only:
            # dev / triage runs (another tree than /repo, or a sub-selection) never touch the evidence
            log("note: evidence file not written (VERIF_REPO or --only run)")
        else:
            evidence.write(pid, tier, seed, kres, mres, notes_by_group, nviol, sorted(seen),
                           inconcl, time.time() - t_start)
        log("%s tier=%s: %d harnesses, %d MIR queries, violations=%d known=%d inconclusive=%d wall=%.0fs -> exit %d" % (
            pid, tier, len(kres), len(mres), nviol, len(seen), len(inconcl), time.time() - t_start, rc))
        return rc
    finally:
        if args.keep:
            log("scratch kept at %s" % work)
        else:
            scratch.rm_scratch(work)


def cmd_setup(args):
    import subprocess
    work = scratch.mk_scratch("setup")
    try:
        root = scratch.copy_repo(work)
        scratch.rewrite_for_kani(root, "vec", None, None)
        kanirun.ensure_deps_cache(root, log)
        ok = os.path.exists(os.path.join(kanirun.DEPS_CACHE, ".ok"))
        log("kani deps cache: %s" % ("ok" if ok else "NOT built (checks will build from scratch)"))
        # container models vs std: exhaustive short-sequence differential test
        rc = subprocess.call([sys.executable, os.path.join(VERIF, "kani", "model_diff", "run.py")])
        log("container model differential test: rc=%d" % rc)
        return 0 if rc == 0 else 1
    finally:
        scratch.rm_scratch(work)


def cmd_manifest(args):
    import gen_manifest
    gen_manifest.main()
    return 0


def cmd_list(args):
    for h in registry.HARNESSES:
        print("K", ",".join(h.props), h.tier, h.group, h.name, h.expect)
    for q in registry.MIR_QUERIES:
        print("M", ",".join(q.props), q.tier, q.name, q.expect)
    return 0


def main():
    ap = argparse.ArgumentParser()
    sub = ap.add_subparsers(dest="cmd")
    c = sub.add_parser("check")
    c.add_argument("property")
    c.add_argument("--tier", default=None)
    c.add_argument("--only", default=None)
    c.add_argument("--keep", action="store_true")
    sub.add_parser("setup")
    sub.add_parser("manifest")
    sub.add_parser("list")
    args = ap.parse_args()
    if args.cmd == "check":
        try:
            sys.exit(cmd_check(args))
        except SystemExit:
            raise
        except Exception:
            traceback.print_exc()
            log("INCONCLUSIVE machinery error")
            sys.exit(2)
    elif args.cmd == "setup":
        sys.exit(cmd_setup(args))
    elif args.cmd == "manifest":
        sys.exit(cmd_manifest(args))
    elif args.cmd == "list":
        sys.exit(cmd_list(args))
    else:
        ap.print_help()
        sys.exit(2)


if __name__ == "__main__":
    main()
