#!/usr/bin/env python3
"""Run a property's check against a seeded change WITHOUT touching /repo: a patched copy of
/repo's working tree is used through VERIF_REPO (for parallel triage; the registered commands
always read /repo itself).  usage: triage.py <diff> <prop> [--tier quick|thorough] [--only substr]"""
import sys, os, subprocess, tempfile, shutil
diff, prop = sys.argv[1], sys.argv[2]
rest = sys.argv[3:]
d = tempfile.mkdtemp(prefix="ferrous-verif-tri-")
try:
    subprocess.run(["rsync", "-a", "--exclude", "/target", "--exclude", "/.git", "/repo/", d + "/"], check=True)
    r = subprocess.run(["patch", "-p1", "-s", "-i", os.path.abspath(diff)], cwd=d)
    if r.returncode != 0:
        print("PATCH FAILED"); sys.exit(3)
    env = dict(os.environ, VERIF_REPO=d, VERIF_NO_REPLAY="1")
    p = subprocess.run([sys.executable, "/verif/run.py", "check", prop] + rest, env=env, stdout=subprocess.PIPE, stderr=subprocess.STDOUT, text=True, cwd="/verif")
    lines = [l for l in p.stdout.split("\n") if ("failed" in l and "[" in l) or "VIOLATION" in l or "tier=" in l or "INCONCLUSIVE" in l or "harness " in l or "query " in l]
    print("\n".join(l[:230] for l in lines))
    print("EXIT", p.returncode)
finally:
    shutil.rmtree(d, ignore_errors=True)
