#!/usr/bin/env python3
"""dev tool: run every registered MIR query once against VERIF_REPO (default /repo) and print verdicts"""
import sys, os
sys.path.insert(0, os.path.dirname(os.path.dirname(os.path.abspath(__file__))))
from vlib import scratch
import registry
from mir import engine
work = scratch.mk_scratch("mirall")
try:
    qs = [q for q in registry.MIR_QUERIES if not sys.argv[1:] or any(a in q.name for a in sys.argv[1:])]
    res = engine.run_queries(qs, work, lambda m: print(m, flush=True))
    bad = 0
    for m in res:
        exp = m.q.expect
        ok = (m.status == "held" and not exp.startswith("kf:")) or (m.status == "failed" and exp.startswith("kf:"))
        if not ok:
            bad += 1
            print("UNEXPECTED", m.q.name, m.status, exp, m.reason[:200], [w.get("what") for w in m.witnesses[:4]])
    print("queries=%d unexpected=%d" % (len(res), bad))
finally:
    scratch.rm_scratch(work)
