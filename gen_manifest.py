#!/usr/bin/env python3
"""Regenerates MANIFEST.json from registry.py + claims.py (kept valid at all times)."""
import json, os, sys
VERIF = os.path.dirname(os.path.abspath(__file__))
sys.path.insert(0, VERIF)
import registry, claims


def main():
    claimed = sorted(set(p for h in registry.HARNESSES for p in h.props) |
                     set(p for q in registry.MIR_QUERIES for p in q.props))
    claimed = [p for p in claimed if p in claims.CLAIMS]
    checks = []
    for pid in claimed:
        c = claims.CLAIMS[pid]
        checks.append({
            "property_id": pid,
            "quick_cmd": "python3 run.py check %s --tier quick" % pid,
            "thorough_cmd": "python3 run.py check %s --tier thorough" % pid,
            "evidence_file": "/verif/evidence/%s.json" % pid,
            "replay_cmd_template": "python3 run.py replay {path}",
            "engine": c["engine"],
            "level_claimed": {"category": "model_checking", "text": c["text"], "design_ref": c.get("design_ref", "DESIGN.md section 3 " + pid)},
            "level_note": c["note"],
            "technique": c["technique"],
        })
    na = [{"property_id": p, "reason": r} for p, r in sorted(claims.NOT_APPLICABLE.items()) if p not in claimed]
    all_ids = [json.loads(l)["id"] for l in open(os.path.join(VERIF, "properties.jsonl"))]
    for p in all_ids:
        if p not in claimed and p not in claims.NOT_APPLICABLE:
            na.append({"property_id": p, "reason": "no solver-decided check registered yet for this property in this build of /verif (work in progress; not claimed)"})
    man = {
        "version": 1,
        "setup_cmd": "python3 run.py setup",
        "hooks": {
            "guard": "cfg(kani)",
            "enable": "none needed: harnesses are overlay modules appended to a scratch copy of /repo's working tree at check time (cfg(kani) is set by Kani itself); /repo carries no hook code",
            "baseline_off_cmd": "cd /repo && cargo test --workspace --no-fail-fast --offline",
            "source_commits": [],
            "add_only": True,
        },
        "engines": [
            {"name": "K", "path": "/verif/kani", "serves_properties": sorted(set(p for h in registry.HARNESSES for p in h.props if p in claimed)),
             "kind_free_text": "Kani 0.68 / CBMC 6.11 bounded model checking of the real functions compiled from a scratch copy of /repo's working tree (overlay harness modules, container models, clock/random stubs)"},
            {"name": "M", "path": "/verif/mir", "serves_properties": sorted(set(p for q in registry.MIR_QUERIES for p in q.props if p in claimed)),
             "kind_free_text": "own MIR -> SMT path encoder (python + z3, cvc5 cross-check) over the nightly MIR dump of the working tree: reachability / ordering / flow queries over the control skeleton of server-level dispatch functions"},
        ],
        "checks": checks,
        "not_applicable": na,
        "notes": claims.NOTES,
    }
    with open(os.path.join(VERIF, "MANIFEST.json"), "w") as f:
        json.dump(man, f, indent=1)
    print("MANIFEST.json: %d checks, %d not_applicable" % (len(checks), len(na)))


if __name__ == "__main__":
    main()
