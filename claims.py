"""Per-property claim texts for MANIFEST.json (what is decided, at what level, what is trusted)."""
TB = ("Trusted: rustc/Kani MIR->GOTO translation, CBMC, CaDiCaL; the container models in /verif/kani/verif_std_*.rs "
      "(std HashMap/HashSet/BTreeMap/VecDeque replaced in the scratch copy; validated by the differential test in setup and by native replay of counterexamples on std containers); "
      "clock/random/format stubs listed in the evidence file; the reference models in the overlays. Bounded: nothing is claimed outside the per-harness bounds written to the evidence file.")

CLAIMS = {
    "C01": dict(
        engine="K",
        technique="bounded model checking (Kani/CBMC) of the real engine functions against a Redis reference model, symbolic arguments",
        text="Solver-decided, bounded: for each encoded string/key-space engine operation, from a directly built pre-state (key absent / present string of fixed small length / present other type), for ALL argument values (full-width indices, offsets, increments; symbolic payload bytes) the reply and the post-state equal a short Redis reference model and refused commands leave the state unchanged; panics/overflow are obligations too. One step from an arbitrary state of the bounded shape covers histories of any length that stay inside the shape.",
        note=TB + " Server-method handlers (argument parsing in network/server.rs) are outside Kani's reach and not part of this claim."),
}

NOT_APPLICABLE = {}

NOTES = ("Solver-based checking of the real code. Engine K = Kani harness overlays appended to a scratch copy of /repo's current working tree "
         "(regenerated on every run); Engine M = MIR->SMT path encoder. Exit 2 = inconclusive (never success). See DESIGN.md.")
