"""Per-property claim texts for MANIFEST.json (what is decided, at what level, what is trusted)."""
TB = ("Trusted: rustc/Kani MIR->GOTO translation, CBMC, CaDiCaL; the container models in /verif/kani/verif_std_*.rs "
      "(std HashMap/HashSet/BTreeMap/VecDeque replaced in the scratch copy; validated by the differential test in setup and by native replay of counterexamples on std containers); "
      "clock/random/format stubs listed in the evidence file; the reference models in the overlays. Bounded: nothing is claimed outside the per-harness bounds written to the evidence file.")

CLAIMS = {
    "C01": dict(
        engine="K+M",
        technique="bounded model checking (Kani/CBMC) of the real engine functions against a Redis reference model, symbolic arguments; MIR -> SMT overflow / reservation queries for SETRANGE and DECRBY boundary arithmetic",
        text="Solver-decided, bounded: for each encoded string/key-space engine operation, from a directly built pre-state (key absent / present string of fixed small length / present other type), for ALL argument values (full-width indices, offsets, increments; symbolic payload bytes) the reply and the post-state equal a short Redis reference model and refused commands leave the state unchanged; panics/overflow are obligations too. One step from an arbitrary state of the bounded shape covers histories of any length that stay inside the shape.",
        note=TB + " Server-method handlers (argument parsing in network/server.rs) are outside Kani's reach and not part of this claim; APPEND is decided for a one-byte and for an empty value, SETRANGE only for its refusal of offsets beyond 512 MB (MIR queries of C06)."),
}

CLAIMS["C20"] = dict(
    engine="K",
    technique="bounded model checking (Kani/CBMC) of the real parser/serializer: totality, round trip, prefix lemma, allocation obligation",
    text="Solver-decided, bounded: (1) totality of parse_frame per type byte over arbitrary bytes (6-7 bytes, every length): frame with 0<consumed<=len, need-more, or error, no panic; (2) round trip parse(serialize(f))==(f,len) for every leaf frame family with symbolic payload bytes (line types without CR/LF, bulk with any bytes, nil forms, integer literals); (3) the prefix lemma of RespParser::parse for every split point (incl. the CR|LF split of a bulk trailer with a concrete declared length), from which chunk independence follows by induction over chunks; (4) aggregate parsers never reserve more elements than bytes received.",
    note=TB + " Outside: doubles (dec2flt/Ryu not tractable), symbolic integers through std Display/FromStr (literal table instead), frames nested inside aggregates for round trip/chunking (drop-glue recursion of RespFrame unrolls beyond memory), payloads > 3 bytes.")

TM = ("Trusted: rustc's MIR dump (nightly, -Zunpretty=mir) as the representation of the code; the MIR parser (self-check: every block of every function in the dump must parse); "
      "the path encoding (acyclic fragment, back edges cut with loop-modified locals havocked = one arbitrary iteration; calls uninterpreted except the small reviewed table in mir/sym.py; "
      "edges into `unreachable` blocks infeasible); z3 (cvc5 cross-check on the dumped SMT-LIB2 queries); the allow-lists / specification sets in /verif/reg. ")

CLAIMS["C17"] = dict(
    engine="M",
    technique="MIR -> SMT path encoding (own encoder, z3 + cvc5): unreachability of non-allow-listed calls under 'password set and not authenticated'",
    text="Solver-decided over the control skeleton of the real dispatch (MIR of the current tree): under the assumption that requirepass is set and the connection's state is not Authenticated, every call site of Server::process_frame and of Server::process_connection (descending into closure bodies) is either shown unreachable by the solver or is in the reviewed allow-list (pure utilities, own-connection I/O, handle_auth, handle_ping, reply constructors). A polarity/vacuity twin shows the dispatch IS reachable when authenticated.",
    note=TM + "Not decided: what handle_auth compares (String equality of the supplied bytes with the configured password is read off the MIR structurally only), timing side channels, what handlers do after authentication, other connection's state (single-connection assumption).")

CLAIMS["C05"] = dict(
    engine="M+K",
    technique="MIR -> SMT path encoding of the frame loop (exactly-one-reply, no early exit) + Kani bounded model checking of serializer/parser framing",
    text="(M) one arbitrary iteration of the frame loop of Server::process_connection pushes exactly one response on every path and cannot leave the loop mid-iteration (an Err of process_frame becomes an error reply). (K) every reply shape with symbolic payloads serialises to bytes that parse back as exactly one frame consuming exactly those bytes, for arbitrary payload bytes including CR/LF; segmentation independence via the C20 prefix lemma.",
    note=TB + TM + "Reduced scope: socket behaviour (partial writes, flush retries), the parse-error path (protocol violations are logged and the connection is left waiting - see known findings), ordering across connections, pub/sub push frames.")

CLAIMS["C07"] = dict(
    engine="M",
    technique="MIR -> SMT path encoding: unreachability of command execution while in_transaction (string theory over the command name, should_queue_command inlined), exactly-one-slot per queued command in the EXEC loop",
    text="Solver-decided over the MIR of the current tree: (1) in Server::process_frame with in_transaction true, process_normal_command is unreachable and the only command-executing calls reachable are the transaction-control handlers (plus the listed known findings: pub/sub, MONITOR and REPLCONF are dispatched before the queue test); (2) one arbitrary iteration of handle_exec's execution loop pushes exactly one result on every path (an Err becomes an error frame in its slot) and cannot leave the loop; (3) EXEC passes the connection's database unchanged.",
    note=TM + "Reduced scope: indivisibility with respect to other clients rests on the single command thread (architecture, not decided); interference from sweeper/BGSAVE/replication threads, disconnect handling and real schedules are outside.")

CLAIMS["C11"] = dict(
    engine="M+K",
    technique="MIR -> SMT: write-command catalogue compared with the specification over all strings (z3 string theory), append-before-dispatch ordering; Kani: frames written to the log round-trip",
    text="Solver-decided: (1) Server::is_write_command, encoded from its MIR as a function of one string variable, agrees with the catalogue of state-changing commands on every string (disagreements are enumerated by the solver); (2) in process_normal_command, with an AOF engine present and is_write_command true, append_command precedes every handler call on every feasible path (with a vacuity twin); (3) the served-blocking-pop path (wake_client) is checked for an append before its pop (known finding); (4) K: bulk-string frames of arbitrary bytes round-trip through the serializer/parser, so the file is a sequence of complete frames.",
    note=TM + TB + "Reduced scope: dataset equality after replay is not decided (AofEngine::replay_command is a no-op in this code base: there is nothing to replay with); database context (no SELECT is logged), random-outcome commands logged verbatim (SPOP), fsync policy and rewrite are outside.")

CLAIMS["C18"] = dict(
    engine="M+K",
    technique="MIR -> SMT argument-flow queries over the dispatch (database argument equals the connection's selection on every path) + Kani per-database non-interference of engine operations",
    text="Solver-decided: (M) every handler called from process_normal_command that has a database parameter receives the caller's db unchanged on every feasible path, every reachable handler without one is in the reviewed database-independent list, EXEC and EVALSHA pass the database through; (K) engine operations on database a leave database b untouched (see evidence for the harness list).",
    note=TM + TB + "Outside: SELECT inside MULTI acting on connection 0 (conn_id 0 during EXEC), WATCH baseline database vs EXEC-time database, blocking wake-ups' saved database (structural only).")

CLAIMS["C02"] = dict(
    engine="K+M",
    technique="bounded model checking (Kani/CBMC) with the clock as a symbolic variable; MIR -> SMT query for the sweeper's structure",
    text="Solver-decided, bounded: with deadline and clock both symbolic (every offset in an 18-hour window at nanosecond resolution) GET/EXISTS/SETNX see the key intact before the deadline and absent after it; SET removes the TTL; EXPIRE/PERSIST/TTL/PTTL arithmetic for every u32-second duration; RENAME carries the deadline and the index entry; the sweeper's per-key step removes a key iff its STORED deadline has passed from ANY combination of stored deadline and (possibly stale) index entry, and (Engine M) the sweeper loop removes keys only through that step. Representative operations that ignore an elapsed deadline are listed as known findings.",
    note=TB + TM + "Outside: interleavings of the sweeper thread with the command thread (no concurrency in Kani), the ~30 engine operations that do not expire lazily beyond the six representative known findings, wall-clock vs monotonic clock, RDB-restored deadlines (C09).")

CLAIMS["C03"] = dict(
    engine="K+M",
    technique="bounded model checking (Kani/CBMC) of the real engine list/set/hash operations against a Redis reference model, full-width symbolic indices; MIR -> SMT overflow query for the count / increment arithmetic",
    text="Solver-decided, bounded: LINDEX/LSET/LRANGE/LTRIM with full-width symbolic indices on lists of 1-3 symbolic elements equal the Redis index normalisation model (incl. out-of-range and reversed ranges); LPUSH/RPUSH/LPOP/RPOP order, returned element and key removal when emptied; SADD (on a 2-member set and on a missing key with a repeated member)/SISMEMBER/SCARD/SREM-last and HSET/HGET/HEXISTS/HLEN on symbolic members; list/set/hash commands against a string key are WRONGTYPE without effect; watchers are notified iff the value changed (C08); (M) the count / increment arithmetic of LREM, SRANDMEMBER, LTRIM, HINCRBY cannot overflow for any argument (query c06_engine_arith_overflow).",
    note=TB + TM + " Outside (CBMC out of memory at 14 GB): LREM's element selection, SREM/HDEL on multi-member collections, LPUSH onto a non-empty list, SPOP/SRANDMEMBER (thread_rng), set algebra, HINCRBY (decimal codec on symbolic values), collections larger than 3, the text handlers in commands/{lists,sets,hashes}.rs.")

CLAIMS["C04"] = dict(
    engine="K+M",
    technique="bounded model checking (Kani/CBMC, memory-safety checks on) of ONE real skip-list operation from a directly built arbitrary valid list; MIR -> SMT failure-atomicity query for ZADD",
    text="Solver-decided, bounded: from a skip list built directly with 2-3 nodes, symbolic distinct members, arbitrary non-NaN scores assumed ordered and enumerated tower shapes, ONE real insert / re-score / remove / rank / range operation preserves the all-levels structural invariant (level-0 strictly increasing by (score, member), higher levels sub-sequences, length = chain = index) and answers like a sorted-vector model; engine ZRANGE/ZREVRANGE/ZRANK/ZSCORE/ZCARD/ZRANGEBYSCORE/ZCOUNT equal the Redis model for full-width arguments; NaN is refused by zadd/zincrby; (M) no argument-error reply of handle_zadd is reachable after an earlier pair took effect.",
    note=TB + TM + " MAX_LEVEL shrunk 32 -> 4 in the scratch copy (towers > 4 outside), at most 3 members, a few of the 64 tower shapes (induction holds for those shapes), random_level stubbed by a concrete level per harness, key_index replaced by a fixed-capacity model; ZPOPMIN/ZPOPMAX and removal-of-last-member at engine level not decided.")

CLAIMS["C06"] = dict(
    engine="K+M",
    technique="panic/overflow/bounds obligations of every Kani harness of the other properties + dedicated full-width boundary harnesses + allocation obligations; MIR -> SMT queries over rustc's own bounds / overflow asserts, reservation sizes and float-to-duration conversions of all command code",
    text="Solver-decided, bounded: every Kani harness registered for C01-C04, C09, C10, C15, C20 runs with Kani's default checks (panic, unwrap, index and slice bounds, arithmetic overflow; pointer checks where the code under test is unsafe), so 'the unit returns for every input inside the bound' is an obligation of each; dedicated harnesses cover GETRANGE/LINDEX/LSET/LRANGE/LTRIM/ZRANGE with full-width indices, EXPIRE/SET EX with any Duration, the frame parser per type byte over arbitrary bytes, aggregate headers and RDB strings never reserving more than the bytes received, stream-ID parsing over arbitrary (non-UTF-8) bytes. (M) On the MIR of the current tree: all 290 slice-index bounds asserts of the command handlers (request slice non-empty, lengths arbitrary) cannot fail; the arithmetic-overflow asserts of the handlers, the storage engine and the unified executor whose operands are built from inputs (integer parameters, fields of by-value command parameters, str::parse results) plus lengths and constants cannot fail (DECRBY/LREM/SRANDMEMBER at iN::MIN, SETRANGE offset + len, HINCRBY, EVAL numkeys, LTRIM stop + 1 ...); no Vec/VecDeque/HashMap reservation (with_capacity, reserve, resize, vec![x; n]) is sized by an input beyond 2^40 when existing collections hold <= 2^32 elements; every Duration::from_secs_f64 argument (BLPOP/BRPOP timeout, an arbitrary IEEE-754 binary64 value) is finite and in [0, 1e11].",
    note=TB + TM + " Reduced: no liveness (hang, deadlock, 'stops answering'), no process-level behaviour (poisoned locks); overflow asserts on loop-carried accumulators, on fields of existing state and behind operators the encoder does not model are undecided (about 130 sites, listed in the evidence); a parameter that every caller bounds is still arbitrary in the function-local MIR queries (a witness of that kind would need confirmation through the public API; none on this tree); loops that run `count` times are not bounded by the reservation query; Lua internals, replication.")

CLAIMS["C08"] = dict(
    engine="K",
    technique="bounded model checking (Kani/CBMC): per mutating engine operation, changed => modification counter bumped; other keys never reported",
    text="Solver-decided, bounded: every one-step engine harness of C01/C02/C03 registers WATCH baselines with the real register_watch on the key under test and on another key of the same shard, and asserts after the operation that an observable change is reported by was_modified_since and that the other key is never reported; dedicated harnesses for EXPIRE, PERSIST, RENAME (both names), FLUSHDB (and not the other database), expiry by the sweeper step, and two connections watching one key of which one UNWATCHes (the other still sees exactly the modifications that happened).",
    note=TB + " Outside: EXEC's re-check loop in Server::handle_exec (structure only, C07), unregister on EXEC/DISCARD (leak, not a violation), WATCH baseline taken in one database and checked in another after SELECT, counters near u64::MAX.")

CLAIMS["C09"] = dict(
    engine="K",
    technique="bounded model checking (Kani/CBMC) of the real RDB writer and reader: codec identities for all lengths < 2^32, per-type record round trips",
    text="Solver-decided, bounded: read_length(write_length(n)) == n with exact consumption for ALL n <= 2^32-1 (covers the 63/64/16383/16384/65536 boundaries); string codec for 0-3 symbolic bytes, and for 2/3/5 bytes with the loader's chunk size shrunk from 64 KiB to 2 in the scratch copy (the multi-chunk path of long strings); string records round-trip through a real engine; list/set/hash records make the reader issue exactly the engine calls that rebuild the saved value (recorded calls), then EXPIRE iff a TTL was saved; saved deadline = now + ttl in ms and restored TTL = deadline - load time for symbolic wall clocks; a key whose deadline passed during downtime is not restored as a persistent key.",
    note=TB + " Outside: sorted-set and stream records, files with more than one key (composition argued from self-delimiting records), header/db selector (format! of the version), lengths >= 2^32 and the list-marker collision (known findings), file-system effects.")

CLAIMS["C10"] = dict(
    engine="K+M",
    technique="bounded model checking (Kani/CBMC): loader totality over arbitrary bytes and every prefix, allocation obligation, writer fault propagation with a symbolic failure point; MIR -> SMT query over every reservation sized by a length field of the dump",
    text="Solver-decided, bounded: read_string and the string record loader over arbitrary bytes and every prefix return Ok (consuming exactly the bytes) or Err, never panic; unknown type bytes are errors; no allocation is sized by a length field larger than the bytes present (K: read_string; M: no with_capacity / reserve / resize / vec![x; n] anywhere in the loader can be reached with a size above 2^40 when the results of read_length / read_u32 / read_u64 are arbitrary); for list, hash, string+TTL records and the frame (db selector, resize hint, EOF, checksum) a write failing at ANY point (symbolic) propagates as Err with no further write attempted.",
    note=TB + TM + " Reduced: the schedule-quantified half (a snapshot taken while clients write is per-key consistent; SAVE and BGSAVE sharing a temp path) is concurrency and is NOT claimed; container-type loader totality and the load_into dispatch loop did not fit (out of memory); RdbEngine::save's rename-after-success ordering is not decided.")

CLAIMS["C13"] = dict(
    engine="K+M",
    technique="bounded model checking (Kani/CBMC) of the blocking registry from enumerated registry shapes with symbolic ids/deadlines; MIR -> SMT query on wake_client",
    text="Solver-decided, bounded: BlockingRegistry::pop_first_waiter and register_blocked_client from 17 enumerated registry shapes (<= 3 clients, <= 2 keys, <= 2 keys per client; ids, deadlines, pop direction symbolic): FIFO per key, blocked_keys = keys with a non-empty queue, full post-state equals the model, and a popped client is registered under NO key afterwards; (M) the pop performed by wake_client is checked for an AOF record (known finding under C11).",
    note=TB + TM + " Reduced: unregister_client, get_expired_clients and the BlockingManager (SegQueue) level did not fit; promptness, real timeouts, disconnect ordering, the multiset equation over whole histories and wake_client dropping an element when the connection is no longer blocked are outside.")

CLAIMS["C14"] = dict(
    engine="K+M",
    technique="bounded model checking (Kani/CBMC) of the pub/sub glob against a table-based Redis stringmatchlen reference and of (un)subscribe bookkeeping; MIR -> SMT query for publish",
    text="Solver-decided, bounded: pattern_matches(p, t) equals the Redis glob reference for all patterns of <= 4 bytes without '[' and texts of <= 3 bytes; SUBSCRIBE/UNSUBSCRIBE acknowledgement counts and the three internal maps equal the model after one operation; (M) in PubSubManager::publish no receiver push is guarded by a per-connection de-duplication test (one delivery per matching subscription).",
    note=TB + TM + " Outside: publish/unsubscribe_all under Kani (out of memory), character classes (known finding), silent UNSUBSCRIBE of nothing (known finding), delivery into socket buffers, ordering across publishers.")

CLAIMS["C15"] = dict(
    engine="K",
    technique="bounded model checking (Kani/CBMC) of the real stream functions from a directly built stream with symbolic 128-bit IDs against an ordered-map model",
    text="Solver-decided, bounded: StreamId order/round trip for all IDs; from_string equals the <ms>-<seq> grammar on <= 5 arbitrary bytes and never panics (also on invalid UTF-8 through the XADD idiom); 20-digit values parse exactly or are refused; XADD * returns an ID greater than last_id for an arbitrary clock (incl. behind last_id and seq = u64::MAX) with the three last_id copies in agreement; explicit ID <= last refused without effect; range / reverse range / range_after with COUNT on 0-3 entries with symbolic IDs and bounds equal the filter model; XDEL and XTRIM leave exactly the modelled entries, XLEN correct, last_id never decreases.",
    note=TB + " Entries carry empty field maps except one fields harness (StreamEntry::clone replaced by an exact shape-asserting stub), Vec::new/push replaced by exact non-growing stubs; the text handlers of commands/streams.rs other than the ID idiom are not executed; last_id == (u64::MAX, u64::MAX) still overflows (add_auto cannot refuse).")

CLAIMS["C16"] = dict(
    engine="K",
    technique="bounded model checking (Kani/CBMC) of PendingEntryList operations from a directly built consistent state, and of Stream::read_group's cursor",
    text="Solver-decided, bounded: add / re-add of an already pending ID / remove (XACK core; also with a consumer's list in arrival order rather than ID order) / transfer (XCLAIM core) / delete-consumer on a pending list with 2 pending IDs and 2 consumers preserve: by-ID content and owners, sum of per-consumer list lengths = number of pending IDs, min/max bounds; XGROUP CREATE starts at the requested ID, duplicate CREATE refused, SETID, DESTROY; XREADGROUP > with NOACK advances the cursor exactly to the last delivered ID.",
    note=TB + " Inline container family (<= 4 entries). Outside: ConsumerGroup-level acknowledge/claim with idle time, membership of each ID in the right per-consumer list (complete comparison out of memory), add_pending's unconditional counter increments, XPENDING range with consumer filter, XAUTOCLAIM.")

CLAIMS["C19"] = dict(
    engine="K",
    technique="bounded model checking (Kani/CBMC) of complete SCAN iterations of the real engine with a modification between calls, and of the engine's glob matcher against the Redis stringmatchlen recurrence",
    text="Solver-decided, bounded: a complete cursor iteration (COUNT 1 and 2) over three keys in two shards returns every key that existed throughout, nothing that never existed, and terminates within |S|+1 calls, also when another key is added after the first call; deleting an already-returned smaller key makes the index cursor skip a stable key (known finding); the engine's pattern_matches (MATCH, KEYS) equals the Redis glob reference for all ASCII patterns of 2 bytes (quick) and 3 bytes (thorough) without '[' and backslash against all 3-byte ASCII texts.",
    note=TB + " SHARDS_PER_DATABASE shrunk 16 -> 2 in the scratch copy. For the glob harnesses the two `x.chars().collect()` lines of pattern_matches are replaced in the scratch copy by an ASCII-exact byte->char copy (non-ASCII input fails the harness). Outside: the TYPE filter, HSCAN/SSCAN/ZSCAN (a ZSCAN harness exists but does not finish in 40 min), character classes / escapes / non-ASCII in the engine matcher, COUNT > 2, more than one modification.")

NOT_APPLICABLE = {
    "C12": "Script atomicity, KEYS/ARGV fidelity, pcall/call control flow, EVALSHA==EVAL and the sandbox live in or behind the Lua VM (C code through FFI; kani-compiler ICEs on mlua's catch_unwind trampolines and there is no Lua semantics for the solver). The only solver-decidable part - the database a redis.call / EVALSHA acts on - is decided under C18 (queries c18_db_arg_execute_*, c18_db_arg_evalsha). Equality of the 3600-line executor with the direct Server-method handlers needs both sides under Kani, which did not fit.",
}

NOTES = ("Solver-based checking of the real code. Engine K = Kani harness overlays appended to a scratch copy of /repo's current working tree "
         "(regenerated on every run); Engine M = MIR->SMT path encoder. Exit 2 = inconclusive (never success). See DESIGN.md.")
