"""Per-property claim texts for MANIFEST.json (what is decided, at what level, what is trusted)."""
TB = ("Trusted: rustc/Kani MIR->GOTO translation, CBMC, CaDiCaL; the container models in /verif/kani/verif_std_*.rs "
      "(std HashMap/HashSet/BTreeMap/VecDeque replaced in the scratch copy; validated by the differential test in setup and by native replay of counterexamples on std containers); "
      "clock/random/format stubs listed in the evidence file; the reference models in the overlays. Bounded: nothing is claimed outside the per-harness bounds written to the evidence file.")

CLAIMS = {
    "C01": dict(
        engine="K",
        technique="bounded model checking (Kani/CBMC) of the real engine functions against a Redis reference model, symbolic arguments",
        text="Solver-decided, bounded: for each encoded string/key-space engine operation, from a directly built pre-state (key absent / present string of fixed small length / present other type), for ALL argument values (full-width indices, offsets, increments; symbolic payload bytes) the reply and the post-state equal a short Redis reference model and refused commands leave the state unchanged; panics/overflow are obligations too. One step from an arbitrary state of the bounded shape covers histories of any length that stay inside the shape.",
        note=TB + " Server-method handlers (argument parsing in network/server.rs) are outside Kani's reach and not part of this claim."),
}

CLAIMS["C20"] = dict(
    engine="K",
    technique="bounded model checking (Kani/CBMC) of the real parser/serializer: totality, round trip, prefix lemma, allocation obligation",
    text="Solver-decided, bounded: (1) totality of parse_frame per type byte over arbitrary bytes (6-7 bytes, every length): frame with 0<consumed<=len, need-more, or error, no panic; (2) round trip parse(serialize(f))==(f,len) for every leaf frame family with symbolic payload bytes (line types without CR/LF, bulk with any bytes, nil forms, integer literals); (3) the prefix lemma of RespParser::parse for every split point, from which chunk independence follows by induction over chunks; (4) aggregate parsers never reserve more elements than bytes received.",
    note=TB + " Outside: doubles (dec2flt/Ryu not tractable), symbolic integers through std Display/FromStr (literal table instead), frames nested inside aggregates for round trip/chunking (drop-glue recursion of RespFrame unrolls beyond memory), payloads > 3 bytes.")

NOT_APPLICABLE = {}

NOTES = ("Solver-based checking of the real code. Engine K = Kani harness overlays appended to a scratch copy of /repo's current working tree "
         "(regenerated on every run); Engine M = MIR->SMT path encoder. Exit 2 = inconclusive (never success). See DESIGN.md.")
