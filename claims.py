"""Per-property claim texts for MANIFEST.json (what is decided, at what level, what is trusted)."""
TB = ("Trusted: rustc/Kani MIR->GOTO translation, CBMC, CaDiCaL; the container models in /verif/kani/verif_std_*.rs "
      "(std HashMap/HashSet/BTreeMap/VecDeque replaced in the scratch copy; validated by the differential test in setup and by native replay of counterexamples on std containers); "
      "clock/random/format stubs listed in the evidence file; the reference models in the overlays. Bounded: nothing is claimed outside the per-harness bounds written to the evidence file.")

CLAIMS = {
    "C01": dict(
        engine="K",
        technique="bounded model checking (Kani/CBMC) of the real engine functions against a Redis reference model, symbolic arguments",
        text="Solver-decided, bounded: for each encoded string/key-space engine operation, from a directly built pre-state (key absent / present string of fixed small length / present other type), for ALL argument values (full-width indices, offsets, increments; symbolic payload bytes) the reply and the post-state equal a short Redis reference model and refused commands leave the state unchanged; panics/overflow are obligations too. One step from an arbitrary state of the bounded shape covers histories of any length that stay inside the shape.",
        note=TB + " Server-method handlers (argument parsing in network/server.rs) are outside Kani's reach and not part of this claim."),
}

CLAIMS["C20"] = dict(
    engine="K",
    technique="bounded model checking (Kani/CBMC) of the real parser/serializer: totality, round trip, prefix lemma, allocation obligation",
    text="Solver-decided, bounded: (1) totality of parse_frame per type byte over arbitrary bytes (6-7 bytes, every length): frame with 0<consumed<=len, need-more, or error, no panic; (2) round trip parse(serialize(f))==(f,len) for every leaf frame family with symbolic payload bytes (line types without CR/LF, bulk with any bytes, nil forms, integer literals); (3) the prefix lemma of RespParser::parse for every split point, from which chunk independence follows by induction over chunks; (4) aggregate parsers never reserve more elements than bytes received.",
    note=TB + " Outside: doubles (dec2flt/Ryu not tractable), symbolic integers through std Display/FromStr (literal table instead), frames nested inside aggregates for round trip/chunking (drop-glue recursion of RespFrame unrolls beyond memory), payloads > 3 bytes.")

TM = ("Trusted: rustc's MIR dump (nightly, -Zunpretty=mir) as the representation of the code; the MIR parser (self-check: every block of every function in the dump must parse); "
      "the path encoding (acyclic fragment, back edges cut with loop-modified locals havocked = one arbitrary iteration; calls uninterpreted except the small reviewed table in mir/sym.py; "
      "edges into `unreachable` blocks infeasible); z3 (cvc5 cross-check on the dumped SMT-LIB2 queries); the allow-lists / specification sets in /verif/reg. ")

CLAIMS["C17"] = dict(
    engine="M",
    technique="MIR -> SMT path encoding (own encoder, z3 + cvc5): unreachability of non-allow-listed calls under 'password set and not authenticated'",
    text="Solver-decided over the control skeleton of the real dispatch (MIR of the current tree): under the assumption that requirepass is set and the connection's state is not Authenticated, every call site of Server::process_frame and of Server::process_connection (descending into closure bodies) is either shown unreachable by the solver or is in the reviewed allow-list (pure utilities, own-connection I/O, handle_auth, handle_ping, reply constructors). A polarity/vacuity twin shows the dispatch IS reachable when authenticated.",
    note=TM + "Not decided: what handle_auth compares (String equality of the supplied bytes with the configured password is read off the MIR structurally only), timing side channels, what handlers do after authentication, other connection's state (single-connection assumption).")

CLAIMS["C05"] = dict(
    engine="M+K",
    technique="MIR -> SMT path encoding of the frame loop (exactly-one-reply, no early exit) + Kani bounded model checking of serializer/parser framing",
    text="(M) one arbitrary iteration of the frame loop of Server::process_connection pushes exactly one response on every path and cannot leave the loop mid-iteration (an Err of process_frame becomes an error reply). (K) every reply shape with symbolic payloads serialises to bytes that parse back as exactly one frame consuming exactly those bytes, for arbitrary payload bytes including CR/LF; segmentation independence via the C20 prefix lemma.",
    note=TB + TM + "Reduced scope: socket behaviour (partial writes, flush retries), the parse-error path (protocol violations are logged and the connection is left waiting - see known findings), ordering across connections, pub/sub push frames.")

CLAIMS["C07"] = dict(
    engine="M",
    technique="MIR -> SMT path encoding: unreachability of command execution while in_transaction (string theory over the command name, should_queue_command inlined), exactly-one-slot per queued command in the EXEC loop",
    text="Solver-decided over the MIR of the current tree: (1) in Server::process_frame with in_transaction true, process_normal_command is unreachable and the only command-executing calls reachable are the transaction-control handlers (plus the listed known findings: pub/sub, MONITOR and REPLCONF are dispatched before the queue test); (2) one arbitrary iteration of handle_exec's execution loop pushes exactly one result on every path (an Err becomes an error frame in its slot) and cannot leave the loop; (3) EXEC passes the connection's database unchanged.",
    note=TM + "Reduced scope: indivisibility with respect to other clients rests on the single command thread (architecture, not decided); interference from sweeper/BGSAVE/replication threads, disconnect handling and real schedules are outside.")

CLAIMS["C11"] = dict(
    engine="M+K",
    technique="MIR -> SMT: write-command catalogue compared with the specification over all strings (z3 string theory), append-before-dispatch ordering; Kani: frames written to the log round-trip",
    text="Solver-decided: (1) Server::is_write_command, encoded from its MIR as a function of one string variable, agrees with the catalogue of state-changing commands on every string (disagreements are enumerated by the solver); (2) in process_normal_command, with an AOF engine present and is_write_command true, append_command precedes every handler call on every feasible path (with a vacuity twin); (3) the served-blocking-pop path (wake_client) is checked for an append before its pop (known finding); (4) K: bulk-string frames of arbitrary bytes round-trip through the serializer/parser, so the file is a sequence of complete frames.",
    note=TM + TB + "Reduced scope: dataset equality after replay is not decided (AofEngine::replay_command is a no-op in this code base: there is nothing to replay with); database context (no SELECT is logged), random-outcome commands logged verbatim (SPOP), fsync policy and rewrite are outside.")

CLAIMS["C18"] = dict(
    engine="M+K",
    technique="MIR -> SMT argument-flow queries over the dispatch (database argument equals the connection's selection on every path) + Kani per-database non-interference of engine operations",
    text="Solver-decided: (M) every handler called from process_normal_command that has a database parameter receives the caller's db unchanged on every feasible path, every reachable handler without one is in the reviewed database-independent list, EXEC and EVALSHA pass the database through; (K) engine operations on database a leave database b untouched (see evidence for the harness list).",
    note=TM + TB + "Outside: SELECT inside MULTI acting on connection 0 (conn_id 0 during EXEC), WATCH baseline database vs EXEC-time database, blocking wake-ups' saved database (structural only).")

NOT_APPLICABLE = {}

NOTES = ("Solver-based checking of the real code. Engine K = Kani harness overlays appended to a scratch copy of /repo's current working tree "
         "(regenerated on every run); Engine M = MIR->SMT path encoder. Exit 2 = inconclusive (never success). See DESIGN.md.")
