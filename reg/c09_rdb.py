# RDB persistence (C09 round trip, C10 loader totality / allocation / writer faults).
# Harnesses live in ovl_rdb.rs (child of rdb.rs); ovl_rdb_engine.rs (child of engine.rs) only adds
# inherent vr_* builders/observers for engine states (no engine operation involved in them).
group("rdb", family="vec", shrinks={"MAX_LEVEL": 4, "SHARDS_PER_DATABASE": 1},
      # compile-only: the harnesses carry more #[kani::stub] attributes than the default macro recursion limit allows
      subst=[(r"\A", '#![recursion_limit = "512"]\n', "src/lib.rs")],
      overlays={"src/storage/rdb.rs": "ovl_rdb.rs", "src/storage/engine.rs": "ovl_rdb_engine.rs"})

# same, with the loader's read chunk (64 KiB) shrunk to 2 bytes so that short strings take the multi-chunk path
group("rdbchunk", family="vec", shrinks={"MAX_LEVEL": 4, "SHARDS_PER_DATABASE": 1},
      subst=[(r"\A", '#![recursion_limit = "512"]\n', "src/lib.rs"), (r"(?<![\w.])(?:64 \* 1024|65_?536|0x1_?0000)(?![\w.])", "2", "src/storage/rdb.rs")],
      overlays={"src/storage/rdb.rs": "ovl_rdb.rs", "src/storage/engine.rs": "ovl_rdb_engine.rs"})

RDB_IO = ["RdbWriter<W>/RdbReader<R> instantiated with W = fixed-capacity in-memory buffer, R = &[u8] (the code is generic over Write/Read)"]
RX = ["RdbReader::read_exact -> same body without the error text (io::Error Display not encodable; wording is not part of the property)"]
FMT = ["alloc::fmt::format -> empty String (error wording is not part of any property)"]

K("c09_lencodec_u32", "rdb", ["C09"], tier="quick", timeout=600,
  desc="length codec: read_length(write_length(n)) == n, exact consumption, 1/2/5-byte width, for ALL n <= 2^32-1 (covers the 63/64/16383/16384/65536 boundaries)",
  encodes=["RdbWriter::write_length", "RdbWriter::write_byte", "RdbWriter::write_u32_be", "RdbWriter::write_raw", "RdbReader::read_length", "RdbReader::read_byte", "RdbReader::read_u32_be"],
  bounds="n symbolic over 0..=2^32-1; unwind 10", stubs=FMT + RX, assumptions=RDB_IO, native_replay=False)
K("c09_lencodec_ge4g_kf", "rdb", ["C09"], tier="thorough", timeout=600, expect="kf:KF-C09-len-ge-4g",
  desc="region n >= 2^32: write_length truncates to 32 bits (len as u32), the length read back differs",
  encodes=["RdbWriter::write_length", "RdbReader::read_length"], bounds="n symbolic over 2^32..=2^64-1", stubs=FMT + RX,
  assumptions=RDB_IO, native_replay=False)
K("c09_strcodec_0to3", "rdb", ["C09"], tier="quick", timeout=600,
  desc="read_string(write_string(p)) == p with exact consumption for payloads of 0,1,2,3 arbitrary bytes (longer payloads: composition with the length codec lemma, payload bytes are copied verbatim)",
  encodes=["RdbWriter::write_string", "RdbWriter::write_length", "RdbWriter::write_raw", "RdbReader::read_string", "RdbReader::read_length"],
  bounds="payload lengths concrete {0,1,2,3}, bytes symbolic; unwind 10", stubs=FMT + RX, assumptions=RDB_IO, native_replay=False)
K("c09_strcodec_chunked", "rdbchunk", ["C09", "C10"], tier="quick", timeout=900,
  desc="read_string(write_string(p)) == p when the string spans SEVERAL read chunks: the loader's chunk size (64 KiB in the source) is shrunk to 2 bytes in the scratch copy, payloads of 2, 3 and 5 arbitrary bytes (one full chunk; full + short last chunk; two full + short): the path every string longer than 64 KiB takes",
  encodes=["RdbWriter::write_string", "RdbReader::read_string", "RdbReader::read_length"],
  bounds="chunk size 2 (textual substitution of the literal 64 * 1024 / 65536 in rdb.rs, wherever it is written: inline or in a named const), payload lengths concrete {2,3,5}, bytes symbolic; unwind 10", stubs=FMT + RX, assumptions=RDB_IO, native_replay=False)

# NOTE: every *_kf harness is tier "thorough" until its finding id is listed in known_findings.json (or the code is
# fixed); they take 20-80 s each and belong into the quick tier afterwards.
ENG = STD_STUBS + FMT + RX
REC_ENC = ["RdbWriter::write_key_value", "RdbWriter::write_string", "RdbWriter::write_length", "RdbReader::read_key_value_with_type", "RdbReader::read_string", "RdbReader::read_length"]
REC_AS = RDB_IO + ["reader side = the value-type arm of load_into's dispatch (read_byte, then read_key_value_with_type with ttl None) into a directly built empty engine (1 db, 16 shards)"]
K("c09_rec_string", "rdb", ["C09"], tier="quick", timeout=900,
  desc="string record round trip: write_key_value into memory, load into an empty engine: same key, type, bytes; no TTL invented; record consumed exactly",
  encodes=REC_ENC + ["StorageEngine::set_string", "StorageEngine::set_value"], bounds="key 1 symbolic byte, value 2 symbolic bytes; unwind 6",
  stubs=ENG, assumptions=REC_AS, native_replay=False)
REC = ["StorageEngine::{set_string,set_string_ex,rpush,sadd,hset,zadd,xadd_with_id,expire} -> recording stubs: the harness decides that the reader issues exactly the engine calls that rebuild the saved value (key, elements, order, scores, expire last); the effect of those calls on an engine is decided by the engine-level properties, not here"]
REC_AS2 = RDB_IO + ["reader side = the value-type arm of load_into's dispatch (read_byte, then read_key_value_with_type) with an ARBITRARY ttl argument (None or any u64 milliseconds), as read_key_value_with_expiry may pass it"]
K("c09_e2e_list", "rdb", ["C09"], tier="thorough", timeout=2400, fs_array=4096, mem_gb=28,
  desc="list record round trip END TO END through the real engine (two chained rpush): 2 elements of 1 arbitrary byte: same order and content, no TTL invented",
  encodes=REC_ENC + ["StorageEngine::rpush"], bounds="key 1 symbolic byte, 2 elements x 1 symbolic byte; unwind 6",
  stubs=ENG, assumptions=REC_AS, native_replay=False)
K("c09_rec_list", "rdb", ["C09"], tier="quick", timeout=900, fs_array=4096,
  desc="list record round trip: 2 elements of 1 arbitrary byte (duplicates allowed): reader appends the same elements in the same order (one rpush each), then expire(key, ttl) iff a TTL was given",
  encodes=REC_ENC, bounds="key 1 symbolic byte, 2 elements x 1 symbolic byte, ttl None or any u64 ms; unwind 6",
  stubs=ENG + REC, assumptions=REC_AS2, native_replay=False)
K("c09_rec_set", "rdb", ["C09"], tier="quick", timeout=900, fs_array=4096,
  desc="set record round trip: 2 members (lengths 1 and 2, arbitrary bytes): one sadd with exactly these members, then expire iff TTL",
  encodes=REC_ENC, bounds="key 1 symbolic byte, members of 1 and 2 symbolic bytes, ttl None or any u64 ms; unwind 6",
  stubs=ENG + REC, assumptions=REC_AS2, native_replay=False)
K("c09_rec_hash", "rdb", ["C09"], tier="quick", timeout=900, fs_array=4096,
  desc="hash record round trip: 2 fields (lengths 1 and 2) with 1-byte values: one hset with exactly these pairs, then expire iff TTL",
  encodes=REC_ENC, bounds="key 1 symbolic byte, fields of 1 and 2 symbolic bytes, values 1 symbolic byte, ttl None or any u64 ms; unwind 6",
  stubs=ENG + REC, assumptions=REC_AS2, native_replay=False)

WALL = ["std::time::SystemTime::now -> wall clock set by the harness (symbolic T_save <= T_load, seconds in [0, 2^40))"]
RKVT = ["RdbReader::read_key_value_with_type -> recording stub (value type, ttl argument); the per-type arms are decided by the c09_rec_* harnesses for an arbitrary ttl argument"]
TTL_ENC = ["RdbWriter::write_key_value (expiry prefix)", "RdbWriter::write_u64_le", "RdbReader::read_u64_le", "RdbReader::read_key_value_with_expiry"]
TTL_B = "key 1 byte, value 1 byte, T_save and T_load symbolic (ns resolution, 0 <= s < 2^40, T_load >= T_save), ttl symbolic Duration < 2^40 s; unwind 10"
K("c09_ttl_future_rest", "rdb", ["C09"], tier="quick", timeout=900,
  desc="TTL across save/load, region deadline > load time: the saved wall-clock deadline is the exact one to clock granularity (<2 ms early, never late) and the loader passes on exactly deadline - load time (ms) as the TTL",
  encodes=TTL_ENC, bounds=TTL_B, stubs=ENG + WALL + RKVT, assumptions=RDB_IO, native_replay=False)
K("c09_ttl_elapsed_kf", "rdb", ["C09"], tier="thorough", timeout=900, expect="hold",
  desc="TTL across save/load, region deadline <= load time (expired while the server was down): the key must be absent; ferrous loads it with ttl None, i.e. as a persistent key",
  encodes=TTL_ENC, bounds=TTL_B, stubs=ENG + WALL + RKVT, assumptions=RDB_IO, native_replay=False)

# ------------------------------------------------------------------ C10
ALLOCW = ["alloc::vec::from_elem (vec![x; n]) and Vec::with_capacity -> wrapper: CHECK mode asserts n <= bytes present in the input; MODEL mode builds the vector with a concrete size per case and, for n > bytes present, a vector longer than the input so that the following read_exact fails as in the real code"]
K("c10_alloc_read_string_kf", "rdb", ["C10", "C06"], tier="thorough", timeout=600, expect="hold",
  desc="allocation obligation at RdbReader::read_string: the vec![0u8; len] is sized by the length field of the file without comparing it with the bytes present (up to 4 GiB zeroed per string header)",
  encodes=["RdbReader::read_string", "RdbReader::read_length"], bounds="5 arbitrary bytes (1-, 2- and 5-byte length encodings); unwind 14",
  stubs=FMT + RX + ALLOCW, assumptions=RDB_IO, native_replay=False)
RECF = ["StorageEngine::{set_string,set_string_ex,rpush,sadd,hset,zadd,xadd_with_id,expire} -> stubs that ignore their arguments and return Ok, or Err at an arbitrary call (engine state is not part of loader totality)"]
RSC = ["RdbReader::read_string -> contract stub: consumes exactly like read_string (same Ok/Err, same reader position), returns a 1-byte vector (first payload byte, 0 if the payload is empty), hence never the stream marker; the contract is decided on the real function by c10_total_read_string; string contents steer control flow only in the stream-marker branch (own harness)"]
TOT_AS = RDB_IO + ["one record: read_key_value_with_type called directly with the concrete type byte (load_into's dispatch loop has its own harness c10_loop_trunc)", "db and ttl arguments arbitrary"]
K("c10_total_read_string", "rdb", ["C10", "C06"], tier="quick", timeout=900,
  desc="read_string/read_length on arbitrary bytes, every prefix length: Ok(v) => header + exactly v.len() payload bytes consumed and returned verbatim; Err otherwise; no panic",
  encodes=["RdbReader::read_string", "RdbReader::read_length", "RdbReader::read_u32_be", "RdbReader::read_byte"],
  bounds="7 symbolic bytes, symbolic prefix length n <= 7; unwind 10", stubs=FMT + RX + ALLOCW, assumptions=RDB_IO, native_replay=False)
K("c10_total_string", "rdb", ["C10", "C06"], tier="thorough", timeout=1200,
  desc="loader totality for value type 0 (string) with the REAL read_string: arbitrary bytes, every prefix length: Ok or Err, no panic / overflow / out-of-bounds",
  encodes=["RdbReader::read_key_value_with_type", "RdbReader::read_string", "RdbReader::read_length"],
  bounds="6 symbolic bytes, symbolic prefix length n <= 6, engine call failing at call 1..3 or never; unwind 10",
  stubs=ENG + RECF + ALLOCW + WALL, assumptions=TOT_AS, native_replay=False)
# c10_total_set / c10_total_zset / c10_total_hash (ovl_rdb.rs) are NOT registered: symbolic element counts make the
# per-element allocations symbolic; they did not finish within 700 s / 14 GB even with 5 input bytes.
K("c10_total_badtype", "rdb", ["C10", "C06"], tier="quick", timeout=900,
  desc="every value-type byte outside 0..=5 is refused with Err, no value arm is entered (read_string replaced by an assert(false) stub), nothing is stored",
  encodes=["RdbReader::read_key_value_with_type"], bounds="type byte symbolic over 6..=255, 4 symbolic bytes; unwind 6",
  stubs=ENG + RECF + ALLOCW + WALL, assumptions=TOT_AS, native_replay=False)

# c10_loop_trunc / c10_loop_eof (load_into dispatch loop) are NOT registered: out of memory / timeout even with 3 input bytes.
FW = ["W = sink whose n-th write call fails (n symbolic, or never), accepting whole buffers otherwise (write_all = one write call)"]
for nm, what, b in (("list", "list of 2 one-byte elements", "8 write calls"), ("hash", "hash with one pair", "8 write calls"), ("string_ttl", "string with TTL (expiry prefix)", "7 write calls"), ("frame", "db selector, resize hint, EOF, checksum", "7 write calls")):
    K("c10_wfault_" + nm, "rdb", ["C10"], tier="quick", timeout=900,
      desc="writer under faults, %s: if the n-th write fails the record writer returns Err, attempts no further write, and bytes_written counts exactly the accepted bytes; without fault Ok and the full number of writes" % what,
      encodes=["RdbWriter::write_key_value", "RdbWriter::write_string", "RdbWriter::write_length", "RdbWriter::write_raw", "RdbWriter::write_db_selector/write_resize_db/write_eof/write_checksum"],
      bounds="%s, failure point symbolic over all of them or none" % b, stubs=ENG + (WALL if nm == "string_ttl" else []), assumptions=FW, native_replay=False)
K("c09_list_marker_kf", "rdb", ["C09"], tier="thorough", timeout=900, fs_array=4096, expect="kf:KF-C09-list-marker",
  desc="region: a LIST whose first element is the 25-byte internal marker __FERROUS_STREAM_MARKER__: it must be restored as that list; ferrous' loader takes it for a stream and issues no rpush (the key vanishes)",
  encodes=REC_ENC, bounds="concrete 25-byte element, key 1 symbolic byte; unwind 28", stubs=ENG + REC, assumptions=REC_AS2, native_replay=False)
