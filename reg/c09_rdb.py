# RDB persistence (C09 round trip, C10 loader totality / allocation / writer faults).
# Harnesses live in ovl_rdb.rs (child of rdb.rs); ovl_rdb_engine.rs (child of engine.rs) only adds
# inherent vr_* builders/observers for engine states (no engine operation involved in them).
group("rdb", family="vec", shrinks={"MAX_LEVEL": 4, "SHARDS_PER_DATABASE": 1},
      overlays={"src/storage/rdb.rs": "ovl_rdb.rs", "src/storage/engine.rs": "ovl_rdb_engine.rs"})

RDB_IO = ["RdbWriter<W>/RdbReader<R> instantiated with W = fixed-capacity in-memory buffer, R = &[u8] (the code is generic over Write/Read)"]
RX = ["RdbReader::read_exact -> same body without the error text (io::Error Display not encodable; wording is not part of the property)"]
FMT = ["alloc::fmt::format -> empty String (error wording is not part of any property)"]

K("c09_lencodec_u32", "rdb", ["C09"], tier="quick", timeout=600,
  desc="length codec: read_length(write_length(n)) == n, exact consumption, 1/2/5-byte width, for ALL n <= 2^32-1 (covers the 63/64/16383/16384/65536 boundaries)",
  encodes=["RdbWriter::write_length", "RdbWriter::write_byte", "RdbWriter::write_u32_be", "RdbWriter::write_raw", "RdbReader::read_length", "RdbReader::read_byte", "RdbReader::read_u32_be"],
  bounds="n symbolic over 0..=2^32-1; unwind 10", stubs=FMT + RX, assumptions=RDB_IO, native_replay=False)
K("c09_lencodec_ge4g_kf", "rdb", ["C09"], tier="thorough", timeout=600, expect="kf:KF-C09-len-ge-4g",
  desc="region n >= 2^32: write_length truncates to 32 bits (len as u32), the length read back differs",
  encodes=["RdbWriter::write_length", "RdbReader::read_length"], bounds="n symbolic over 2^32..=2^64-1", stubs=FMT + RX,
  assumptions=RDB_IO, native_replay=False)
K("c09_strcodec_0to3", "rdb", ["C09"], tier="quick", timeout=600,
  desc="read_string(write_string(p)) == p with exact consumption for payloads of 0,1,2,3 arbitrary bytes (longer payloads: composition with the length codec lemma, payload bytes are copied verbatim)",
  encodes=["RdbWriter::write_string", "RdbWriter::write_length", "RdbWriter::write_raw", "RdbReader::read_string", "RdbReader::read_length"],
  bounds="payload lengths concrete {0,1,2,3}, bytes symbolic; unwind 10", stubs=FMT + RX, assumptions=RDB_IO, native_replay=False)

ENG = STD_STUBS + FMT + RX
REC_ENC = ["RdbWriter::write_key_value", "RdbWriter::write_string", "RdbWriter::write_length", "RdbReader::read_key_value_with_type", "RdbReader::read_string", "RdbReader::read_length"]
REC_AS = RDB_IO + ["reader side = the value-type arm of load_into's dispatch (read_byte, then read_key_value_with_type with ttl None) into a directly built empty engine (1 db, 16 shards)"]
K("c09_rec_string", "rdb", ["C09"], tier="quick", timeout=900,
  desc="string record round trip: write_key_value into memory, load into an empty engine: same key, type, bytes; no TTL invented; record consumed exactly",
  encodes=REC_ENC + ["StorageEngine::set_string", "StorageEngine::set_value"], bounds="key 1 symbolic byte, value 2 symbolic bytes; unwind 6",
  stubs=ENG, assumptions=REC_AS, native_replay=False)
K("c09_rec_list", "rdb", ["C09"], tier="quick", timeout=900,
  desc="list record round trip: 2 elements of 1 arbitrary byte (duplicates allowed): same order and content",
  encodes=REC_ENC + ["StorageEngine::rpush"], bounds="key 1 symbolic byte, 2 elements x 1 symbolic byte; unwind 6",
  stubs=ENG, assumptions=REC_AS, native_replay=False)
K("c09_rec_set", "rdb", ["C09"], tier="quick", timeout=900,
  desc="set record round trip: 2 distinct members of 1 arbitrary byte: same members",
  encodes=REC_ENC + ["StorageEngine::sadd"], bounds="key 1 symbolic byte, 2 distinct members x 1 symbolic byte; unwind 6",
  stubs=ENG, assumptions=REC_AS, native_replay=False)
K("c09_rec_hash", "rdb", ["C09"], tier="quick", timeout=900,
  desc="hash record round trip: 2 distinct fields with 1-byte values: same field->value map",
  encodes=REC_ENC + ["StorageEngine::hset"], bounds="key 1 symbolic byte, 2 distinct fields x 1 symbolic byte, values 1 symbolic byte; unwind 6",
  stubs=ENG, assumptions=REC_AS, native_replay=False)
