# consumer groups: PendingEntryList / ConsumerGroupManager level on the inline container family
# (the Vec-backed family ran out of memory on every PendingEntryList operation);
# XREADGROUP cursor harnesses live in the stream group (overlay of stream.rs).
group("cg", family="inline", shrinks={}, overlays={"src/storage/consumer_groups.rs": "ovl_cg.rs"},
      subst=[(r"\A", "#![cfg_attr(kani, feature(allocator_api))]\n", "src/lib.rs")])

VEC = ["std::vec::Vec::new -> Vec::with_capacity(4) (capacity is unobservable)",
       "std::vec::Vec::push -> write without growing; a push beyond the reserved capacity FAILS the harness (nothing cut)"]
NOW = ["std::time::SystemTime::now -> reading chosen by the harness"]
PRE = ("pre-state: consistent PendingEntryList with 2 pending IDs, CONCRETE (10-7, 20-0; the code uses IDs only through Ord/Eq and the ID argument is full-width symbolic, "
       "so it takes every order position relative to them); consumer names are 1-byte strings, the consumer argument is one symbolic letter a..z (existing or new)")
LIGHT = ("post-state check: by-ID index content and owners, sum of per-consumer list lengths == number of pending IDs, min/max bounds, len/min_id/max_id accessors; "
         "membership of each ID in the right per-consumer list is NOT decided (complete comparison ran CBMC out of memory)")

K("c16_pel_add_rest", "cg", ["C16"], tier="quick", timeout=1200,
  desc="PendingEntryList::add_entry of an ID that is not pending, for an existing or new consumer: ID pending for that consumer, others keep their owner, counts and bounds agree",
  encodes=["PendingEntryList::add_entry", "PendingEntryList::update_bounds"], bounds="2 pending IDs owned by a and b; 1 symbolic ID + consumer; containers <= 4 entries (inline family); unwind 5",
  stubs=VEC + NOW, assumptions=[PRE, LIGHT])
K("c16_pel_add_kf", "cg", ["C16"], tier="thorough", timeout=1200, expect="hold",
  desc="region: the ID is already pending (XREADGROUP g c STREAMS k 0 re-delivers history through add_pending; or delivery of an ID pending for another consumer): per-consumer lists then hold 3 IDs for 2 pending entries (duplicate / stale ownership), counters drift",
  encodes=["PendingEntryList::add_entry"], bounds="as c16_pel_add_rest", stubs=VEC + NOW, assumptions=[PRE, LIGHT])
K("c16_pel_remove_ab", "cg", ["C16"], tier="quick", timeout=1200,
  desc="PendingEntryList::remove_entry (XACK core): Some(entry) iff the ID was pending (unknown / already acknowledged IDs count nothing); exactly that ID leaves; counts and bounds agree",
  encodes=["PendingEntryList::remove_entry", "PendingEntryList::update_bounds"], bounds="2 pending IDs owned by a and b; symbolic ID; unwind 5",
  stubs=VEC + NOW, assumptions=[PRE, LIGHT])
K("c16_pel_remove_aa_unsorted", "cg", ["C16"], tier="quick", timeout=1800, mem_gb=28,  # measured: out of memory at 14 GB, 345 s at 30 GB
  desc="remove_entry when both pending IDs belong to ONE consumer whose index lists them in arrival order (greater ID first: read, then claim / re-delivery of a smaller ID): exactly the requested ID leaves both representations",
  encodes=["PendingEntryList::remove_entry", "PendingEntryList::update_bounds"], bounds="2 pending IDs owned by a, per-consumer list [greater, smaller]; symbolic ID; unwind 5",
  stubs=VEC + NOW, assumptions=[PRE, LIGHT])
K("c16_pel_transfer_ab", "cg", ["C16"], tier="quick", timeout=1200,
  desc="PendingEntryList::transfer_ownership (XCLAIM core): a pending ID moves to the claimer (own owner, other consumer, new consumer), its delivery counter + 1, nothing else changes; an unknown ID changes nothing",
  encodes=["PendingEntryList::transfer_ownership"], bounds="2 pending IDs owned by a and b; symbolic ID + consumer; unwind 5",
  stubs=VEC + NOW, assumptions=[PRE, LIGHT])
K("c16_pel_delconsumer_ab", "cg", ["C16"], tier="quick", timeout=1200,
  desc="PendingEntryList::remove_consumer_entries (DELCONSUMER core): exactly that consumer's entries leave, reply == their number (0 for an unknown consumer)",
  encodes=["PendingEntryList::remove_consumer_entries", "PendingEntryList::update_bounds"], bounds="2 pending IDs owned by a and b; symbolic consumer; unwind 5",
  stubs=VEC + NOW, assumptions=[PRE, LIGHT])
K("c16_create_cursor_rest", "cg", ["C16"], tier="quick", timeout=600,
  desc="XGROUP CREATE at 0-0: cursor 0-0; second CREATE refused; SETID sets the cursor to any ID; DESTROY removes exactly that group",
  encodes=["ConsumerGroupManager::create_group", "get_group", "destroy_group", "group_count", "ConsumerGroup::new", "set_id", "get_last_id"],
  bounds="1 group; SETID argument full-width symbolic; unwind 5", stubs=NOW)
K("c16_create_cursor_kf", "cg", ["C16"], tier="quick", timeout=600, expect="hold",
  desc="XGROUP CREATE at ANY start position (symbolic): the cursor is the start position; then SETID to ANY id (also below the cursor) sets the cursor",
  encodes=["ConsumerGroupManager::create_group", "ConsumerGroup::new", "ConsumerGroup::get_last_id"], bounds="start full-width symbolic; unwind 5", stubs=NOW)

RG = VEC + ["<StreamEntry as Clone>::clone -> exact clone for entries with an empty field map (shape asserted inside the stub)",
            "std::time::SystemTime::now -> reading chosen by the harness", "alloc::fmt::format -> empty String"]
K("c16_readgroup_noack_rest", "stream", ["C16"], tier="quick", timeout=600, fs_array=4096,
  desc="XREADGROUP NOACK > with nothing after the cursor (2-entry stream, arbitrary cursor, COUNT): empty reply, cursor and pending set unchanged",
  encodes=["Stream::read_group", "StreamData::range_after", "ConsumerGroupManager::get_group", "ConsumerGroup::get_last_id"],
  bounds="2 entries, IDs/cursor/COUNT symbolic; unwind 5", stubs=RG)
K("c16_readgroup_noack_kf", "stream", ["C16"], tier="thorough", timeout=600, fs_array=4096, expect="hold",
  desc="region: NOACK and at least one entry after the cursor: reply is correct but the cursor does not advance, so the next XREADGROUP > delivers the same entries again",
  encodes=["Stream::read_group"], bounds="as c16_readgroup_noack_rest", stubs=RG)
