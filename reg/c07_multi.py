# C07 MULTI/EXEC: Engine M over process_frame / handle_exec
M("c07_queue_only", ["C07"], "reach_allow", tier="quick",
  desc="Server::process_frame with conn.transaction_state.in_transaction == true (no password): no command-executing call may be reachable except the transaction control handlers - i.e. process_normal_command is unreachable (the solver uses the inlined body of transactions::should_queue_command over a string variable for the command name) and nothing else executes a command before the queue test.",
  assumptions=["calls uninterpreted except the reviewed table; transactions::should_queue_command is inlined from its own MIR",
               "in_transaction is the tuple component read from the connection by the first closure (checked structurally by name)"],
  fn=r"::process_frame$", assume=["NO_PASSWORD"], assume_debug={"in_transaction": True}, inline=[r"should_queue_command$"],
  deny=[r"^Server::process_normal_command$", r"^Server::handle_(?!exec$|auth$)\w+$", r"handle_replconf$", r"MonitorSubscribers::subscribe$"],
  must_reach=[r"queue_command$", r"^Server::handle_exec$"])

M("c07_exec_loop", ["C07"], "loop_one_push", tier="quick",
  desc="Server::handle_exec execution loop, one arbitrary iteration: exactly one result slot is pushed per queued command on every path (an Err of a queued command becomes an error frame in its slot) and the loop cannot be left mid-iteration.",
  assumptions=["iteration is over the drained queue in order (slice iterator)"],
  fn=r"::handle_exec$", head=r"Iter<'_, Vec<RespFrame>> as Iterator>::next$", push=r"Vec::<RespFrame>::push$", count=1)
M("c07_nested_multi_no_effect", ["C07"], "reach_allow", tier="quick",
  desc="transactions::handle_multi with conn.transaction_state.in_transaction == true (a nested MULTI, which is refused): no call that empties or changes the queue (VecDeque::clear / push / drain / take) is reachable - a refused MULTI must leave the already queued commands alone",
  fn=r"transactions::handle_multi$|^handle_multi$", assume_place=[(r"TransactionState\)\.0: bool", True)],
  deny=[r"VecDeque::(clear|push_back|push_front|drain|truncate|pop_front|pop_back)$", r"mem::take", r"HashMap::clear$"],
  must_reach=[r"RespFrame::error$"])
