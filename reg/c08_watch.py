K("c08_flushdb_watch", "eng2s", ["C08", "C18", "C01"], tier="quick", timeout=900,
  desc="FLUSHDB 0 with the same key present in db 0 (with TTL) and db 1: db 0 emptied incl. expiry index, watchers of the flushed key notified, db 1 untouched and its watchers not notified",
  encodes=["StorageEngine::flush_db", "was_modified_since", "register_watch"], bounds="2 databases x 2 shards (const shrunk); 1-byte values; unwind 5", stubs=STD_STUBS)

K("c08_two_watchers_unwatch", "eng", ["C08"], tier="quick", timeout=900,
  desc="two connections WATCH the same key, the key is modified or not (symbolic), one connection UNWATCHes: the other connection's was_modified_since answers exactly 'modified' (an UNWATCH by someone else neither hides nor invents a change)",
  encodes=["StorageEngine::register_watch", "unregister_watch", "was_modified_since", "ShardWatchTracker::*", "StorageEngine::append"], bounds="one 2-byte string, one appended symbolic byte; unwind 5", stubs=STD_STUBS)
