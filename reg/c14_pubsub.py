# C14 pub/sub: glob matcher + PubSubManager, inline container models (CAP = 4)
group("psub", family="inline", shrinks={}, overlays={"src/pubsub.rs": "ovl_pubsub.rs"})
for n in ("c14_glob_p2_t3_rest", "c14_glob_p3_t2_rest", "c14_glob_p3_t3_rest", "c14_glob_p4_t3_rest", "c14_glob_class_kf"):
    K(n, "psub", ["C14"], tier="quick", timeout=1500, desc="", encodes=[], bounds="", stubs=[])
