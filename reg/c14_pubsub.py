# C14 pub/sub: glob matcher (fully symbolic) + PubSubManager (single-step instances), inline models.
# NOT registered because they do not finish (see the build report for C13/C14): PubSubManager::publish
# from any non-empty state (out of memory in propositional reduction even for ONE subscription, concrete
# ids, stubbed matcher, fs_array=4096), multi-instance (un)subscribe harnesses, unsubscribe_all.
# Their harness code is kept in ovl_pubsub.rs (publish_case, unsub_all_kind_case, unsubscribe_all_case).
group("psub", family="inline", shrinks={}, overlays={"src/pubsub.rs": "ovl_pubsub.rs"})
FMT = ["alloc::fmt::format -> empty String (no message text is part of the property)"]
REF = ("reference = the recurrence of Redis util.c stringmatchlen (nocase=0: * ? [..] [^..] ranges, backslash escape, malformed classes as in C) "
       "evaluated bottom-up over a table; cross-checked natively against a C transcription on 1.15 M pattern/text pairs; one deliberate reading: "
       "'*' also matches an EMPTY text (glob semantics, ferrous' own unit test; the C loop is skipped for empty text)")

K("c14_glob_p2_t3_rest", "psub", ["C14"], tier="quick", timeout=900,
  desc="pattern_matches(p,t) == reference for every pattern of length 0..2 and text of length 0..3 without '[' in the pattern; " + REF,
  encodes=["pubsub::pattern_matches"], bounds="12 length combinations, all bytes symbolic (full 0..255); unwind 7",
  assumptions=["region split: patterns containing '[' are in c14_glob_class_kf"], stubs=[])
K("c14_glob_p3_t2_rest", "psub", ["C14"], tier="quick", timeout=900,
  desc="pattern_matches == reference, pattern length 3, text length 0..2, no '[' in the pattern",
  encodes=["pubsub::pattern_matches"], bounds="3 length combinations, all bytes symbolic; unwind 7",
  assumptions=["region split: patterns containing '[' are in c14_glob_class_kf"], stubs=[])
K("c14_glob_p3_t3_rest", "psub", ["C14"], tier="quick", timeout=900,
  desc="pattern_matches == reference, pattern length 3, text length 3, no '[' in the pattern",
  encodes=["pubsub::pattern_matches"], bounds="3+3 symbolic bytes; unwind 8",
  assumptions=["region split: patterns containing '[' are in c14_glob_class_kf"], stubs=[])
K("c14_glob_p4_t3_rest", "psub", ["C14"], tier="quick", timeout=900,
  desc="pattern_matches == reference, pattern length 4, text length 3, no '[' in the pattern",
  encodes=["pubsub::pattern_matches"], bounds="4+3 symbolic bytes; unwind 9",
  assumptions=["region split: patterns containing '[' are in c14_glob_class_kf"], stubs=[])
K("c14_glob_class_kf", "psub", ["C14"], tier="quick", timeout=900, expect="kf:KF-C14-glob-class",
  desc="patterns containing '[': Redis character classes ([abc], [^a], [a-z]); ferrous' pub/sub matcher treats '[' as a literal byte (PSUBSCRIBE news.[ab] receives nothing)",
  encodes=["pubsub::pattern_matches"], bounds="pattern length 1..3 with a '[', text length 1..2, bytes symbolic; unwind 7", stubs=[])
K("c14_sub_second_conn", "psub", ["C14"], tier="quick", timeout=1200, fs_array=4096,
  desc="SUBSCRIBE x by a second connection while another one is subscribed to x: one acknowledgement naming x with count 1 and is_new; afterwards the three maps equal the model (channels[x] = both connections, one record per connection, is_subscribed)",
  encodes=["PubSubManager::subscribe", "PubSubManager::is_subscribed"],
  bounds="one instance: manager built on the stack with 1 subscription; connection ids concrete (11, 22: ids are used in == / as keys only); CAP=4; unwind 6", stubs=FMT)
K("c14_unsub_last", "psub", ["C14"], tier="quick", timeout=1200, fs_array=4096,
  desc="UNSUBSCRIBE x by the only subscriber: one acknowledgement naming x with count 0; channel entry and connection record are removed from all three maps",
  encodes=["PubSubManager::unsubscribe", "PubSubManager::is_subscribed"],
  bounds="one instance: 1 subscription; ids concrete; CAP=4; unwind 6", stubs=FMT)
K("c14_unsub_unknown_conn_kf", "psub", ["C14", "C05"], tier="quick", timeout=1200, fs_array=4096, expect="kf:KF-C14-unsub-noack",
  desc="UNSUBSCRIBE x by a connection that has no subscription: Redis acknowledges every named channel (count 0); ferrous returns no acknowledgement at all (the client waits forever for the reply)",
  encodes=["PubSubManager::unsubscribe"], bounds="one instance: empty manager; ids concrete", stubs=FMT)

# Engine M fallback for PubSubManager::publish (out of memory under Kani): one delivery per
# matching SUBSCRIPTION means no receiver may be skipped because its connection was already seen.
M("c14_publish_no_dedup", ["C14"], "reach_allow", tier="quick",
  desc="MIR of PubSubManager::publish: every matching (connection, channel|pattern) subscription is pushed to the receiver list unconditionally - no HashSet::insert / contains on connection ids guards the push (a client subscribed to a channel AND a matching pattern gets one delivery per subscription, and PUBLISH counts both)",
  fn=r"PubSubManager::publish$|pubsub::.*::publish$", deny=[r"HashSet::(insert|contains)$"], must_reach=[r"Vec::push$"])
K("c14_unsub_channel_keeps_pattern", "psub", ["C14"], tier="quick", timeout=1500, fs_array=4096,
  desc="a client holding channel x AND pattern p unsubscribes its last channel: acknowledgement count 1, the pattern subscription and the connection record survive in all three maps",
  encodes=["PubSubManager::unsubscribe"], bounds="one instance: 2 subscriptions of one connection; ids concrete; CAP=4; unwind 6", stubs=FMT)
