# C17: authentication gate, Engine M
PURE = [
    r"^<.* as (?:[\w:]*::)?(Deref|DerefMut|Index<.*>|IndexMut<.*>|IntoIterator|Iterator|PartialEq.*|PartialOrd.*|Clone|Debug|Display|FromResidual.*|Try|AsRef<.*>|Borrow<.*>|From<.*>|Into<.*>|ToString|Default|Extend<.*>|FromIterator<.*>)>::",
    r"^(std::vec::|alloc::vec::)?Vec::(len|is_empty|new|with_capacity|push|iter|as_slice|into_iter|clear)$",
    r"^(std::string::)?String::(from_utf8_lossy|as_str|new|from_utf8|len|is_empty|push_str|contains)$",
    r"^(core|std)::str::(trim|to_uppercase|to_lowercase|len|is_empty|as_bytes|contains|starts_with)$",
    r"^(std::option::)?Option::(is_some|is_none|unwrap_or|unwrap_or_else|map|ok_or_else|as_ref|take|unwrap)$",
    r"^(std::result::)?Result::(is_ok|is_err|map_err|ok|unwrap_or)$",
    r"^RespFrame::(error|ok|null_bulk|null_array|simple_string|from_string|from_bytes|bulk_string|integer|Integer|SimpleString)$",
    r"^std::sync::atomic::Atomic(U64|Usize)?::(fetch_add|load|store)$",
    r"^(std::mem::drop|std::mem::take|std::mem::replace)$",
    r"^(std::time::)?(Instant|SystemTime)::now$", r"^(std::time::)?Duration::(from_secs|from_millis)$",
    r"^(std::io::_eprint|std::io::_print|core::fmt::rt::|(std::fmt::|core::fmt::)?Arguments::|format|std::fmt::format|alloc::fmt::format)",
    r"^core::panicking::|^panic$|^std::rt::",
]
# own-connection I/O and state reads (the connection that sent the bytes; no dataset access)
OWN_CONN = [
    r"^ShardedConnections::with_connection$",
    r"^Connection::(has_pending_writes|flush|read|parse_frame|close|idle_time|send_frame|is_closing)$",
]

M("c17_gate_process_frame", ["C17"], "reach_allow", tier="quick",
  desc="Server::process_frame under (requirepass set AND connection state != Authenticated): every call the solver finds reachable must be in the allow-list (pure frame/string utilities, own-connection state read, handle_auth, handle_ping, reply constructors). One sat query per call site; closure bodies passed to callees are descended into.",
  assumptions=["calls are uninterpreted (fresh result per call site) except string equality against constants, Option::is_some on config.password, ConnectionState eq/ne, references as aliases",
               "a non-constant ConnectionState value is the state of the connection being served (single-connection assumption)",
               "the allow-list in /verif/reg/c17_auth.py is the specification of 'harmless before authentication'"],
  fn=r"::process_frame$", assume=["PASSWORD_SET", "NOT_AUTHENTICATED"], allow=PURE + OWN_CONN + [r"^Server::handle_auth$", r"^Server::handle_ping$"],
  must_reach=[r"^Server::handle_auth$", r"^RespFrame::error$"])

M("c17_gate_process_connection", ["C17"], "reach_allow", tier="quick",
  desc="Server::process_connection frame loop under (requirepass set AND state != Authenticated): besides process_frame itself (gated, see c17_gate_process_frame) only own-connection I/O, statistics and pure utilities may be reachable; in particular no replication handshake (handle_sync_command).",
  assumptions=["as c17_gate_process_frame"],
  fn=r"::process_connection$", assume=["PASSWORD_SET", "NOT_AUTHENTICATED"],
  allow=PURE + OWN_CONN + [r"^Server::process_frame$", r"^PubSubManager::is_subscribed$"],
  must_reach=[r"^Server::process_frame$"])

M("c17_gate_sanity_authenticated", ["C17"], "reach_allow", tier="quick",
  desc="polarity/vacuity twin: with the connection Authenticated the dispatch (process_normal_command, handle_exec, pub/sub handlers) IS reachable in process_frame - so the gate query is not vacuous and the atom polarity is right. Expected to list non-allow-listed calls; passes when the must_reach set is reached.",
  fn=r"::process_frame$", assume=["PASSWORD_SET", "AUTHENTICATED"], allow=[r".*"],
  must_reach=[r"^Server::process_normal_command$", r"^Server::handle_exec$", r"^Server::handle_subscribe$"])

M("c17_auth_exact_password", ["C17"], "guarded", tier="quick",
  desc="Server::handle_auth: the connection's state is set to Authenticated (closure passed to with_connection) ONLY on executions on which the String equality of the supplied password with the configured one returned true - no other comparison (prefix, folded XOR over zip, case-insensitive...) can authenticate",
  assumptions=["byte equality of <String as PartialEq>::eq is the standard library's and is trusted; the supplied bytes reach it through String::from_utf8 (checked structurally: the only String built from the request)"],
  fn=r"::handle_auth$", target=r"with_connection", target_closure_stmt=r"= (network::connection::)?ConnectionState::Authenticated$",
  target_name="state = Authenticated", guard=r"<(std::string::)?String as PartialEq>::eq$", guard_name="String == String on the password")
