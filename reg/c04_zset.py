# C04 sorted sets: skip list (raw-pointer code, memory-safety checks ON), MAX_LEVEL shrunk 32 -> 4
group("skl", family="vec", shrinks={"MAX_LEVEL": 4}, overlays={"src/storage/skiplist.rs": "ovl_skiplist.rs"})
for _n in ("c04_build_h213", "c04_insert_h121", "c04_remove_h213", "c04_rank_h213", "c04_byrank_h213", "c04_byscore_h213"):
    K(_n, "skl", ["C04"], tier="quick", timeout=1200, memsafe=True, desc="wip", encodes=[], bounds="", stubs=[])
for _n in ("x_remove_a", "x_remove_b", "x_remove_c", "x_remove_d", "x_remove_e", "x_remove_f"):
    K(_n, "skl", ["X04"], tier="thorough", timeout=1200, memsafe=True, desc="experiment", encodes=[], bounds="", stubs=[])
