# C04 sorted sets: skip list (raw-pointer code, memory-safety checks ON), MAX_LEVEL shrunk 32 -> 4
KI_SUBST = [(r"use crate::verif_std::HashMap;", "use self::verif_ovl_skiplist::KeyIndexModel as HashMap;", "src/storage/skiplist.rs")]
group("skl", family="vec", shrinks={"MAX_LEVEL": 4}, overlays={"src/storage/skiplist.rs": "ovl_skiplist.rs"}, subst=KI_SUBST)
group("zse", family="vec", shrinks={"MAX_LEVEL": 4, "SHARDS_PER_DATABASE": 2}, subst=KI_SUBST,
      overlays={"src/storage/skiplist.rs": "ovl_skiplist.rs", "src/storage/engine.rs": "ovl_zset_engine.rs"})
NOREACH = ["--no-assertion-reach-checks"]
for _n in ("c04_build_h213", "c04_insert_h121", "c04_remove_h213", "c04_rank_h213", "c04_byrank_h213", "c04_byscore_h213"):
    K(_n, "skl", ["C04"], tier="quick", timeout=1200, memsafe=True, desc="wip", encodes=[], bounds="", stubs=[], extra=NOREACH)
for _n in ("x_ins_a", "x_ins_b", "x_ins_c", "x_rem_v", "x_remove_a", "x_remove_d"):
    K(_n, "skl", ["X04"], tier="thorough", timeout=1200, memsafe=True, desc="experiment", encodes=[], bounds="", stubs=[], extra=NOREACH)
for _n in ("c04_e_zadd_rest", "c04_e_zadd_kf", "c04_e_zincrby_rest", "c04_e_zincrby_kf", "c04_e_zrem_n1", "c04_e_zrem_n2", "c04_e_zrange_rest", "c04_e_zrange_kf", "c04_e_zrank_n2", "c04_e_zrangebyscore_n2"):
    K(_n, "zse", ["X04"], tier="thorough", timeout=1200, memsafe=True, desc="wip", encodes=[], bounds="", stubs=[], extra=NOREACH)
