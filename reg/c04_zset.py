# C04 sorted sets.
# Group "skl": the skip list itself (raw-pointer code => memory-safety checks ON), MAX_LEVEL shrunk 32 -> 4.
# Group "zse": engine z* operations on a sorted set built by the skip-list overlay (production key type).
# key_index container: skiplist.rs's `use ...HashMap` line is pointed at a fixed-capacity model that
# lives in the overlay (KeyIndexModel, 4 slots, no heap): with the Vec-backed family model every
# push/remove on a map behind Arc<RwLock<..>> is a symbolic-size realloc/memmove and CBMC runs out
# of memory on SkipList::insert.
KI_SUBST = [(r"use (?:crate::verif_std|std::collections)::HashMap;", "use self::verif_ovl_skiplist::KeyIndexModel as HashMap;", "src/storage/skiplist.rs")]
group("skl", family="vec", shrinks={"MAX_LEVEL": 4}, subst=KI_SUBST, fs_array=4096,
      overlays={"src/storage/skiplist.rs": "ovl_skiplist.rs"})
group("zse", family="vec", shrinks={"MAX_LEVEL": 4, "SHARDS_PER_DATABASE": 2}, subst=KI_SUBST, fs_array=4096,
      overlays={"src/storage/skiplist.rs": "ovl_skiplist.rs", "src/storage/engine.rs": "ovl_zset_engine.rs"})

# reach checks only label UNREACHABLE and cost one solver round (50-150 s here) each; vacuity is
# guarded by one explicit kani::cover! witness per harness instead
NOREACH = ["--no-assertion-reach-checks"]
SKL_STUBS = ["SkipList::random_level -> level chosen by the harness (concrete per harness, 0..MAX_LEVEL-1 = range of the real function)",
             "SkipListInner::key_index: std HashMap -> KeyIndexModel (fixed-capacity finite map in the overlay; exceeding 4 entries is reported)",
             "ThreadRng handle of the list -> never-used stand-in (rand::thread_rng cannot run under Kani)"]
INV = ("structural invariant walked over all levels afterwards: level-0 chain strictly increasing by (score, member), no NaN, "
       "every level == the nodes with a higher tower in level-0 order (sub-sequence + fully linked towers), level = highest non-empty level, "
       "length == chain length == key_index.len(), index score == node score bit for bit, memory_usage consistent; all dereferences memory-safety-checked")
PRE = "pre-state built directly: %s with arbitrary distinct one-byte members and arbitrary non-NaN f64 scores assumed strictly increasing by (score, member) (incl. equal scores, +-0.0, +-inf); MAX_LEVEL = 4; unwind 5"


# measured (3 in parallel, fs_array 4096): build 7 s, rank 15 s, byrank 11 s, byscore 25 s, remove 305 s, insert_h12_l2 339 s,
# rescore_h121_l1 419 s; thorough: insert_new_h121_l1 348 s, insert_h12_l1 321 s
def S(name, tier, desc, enc, shape, extra_b="", timeout=1500, native=True):
    K(name, "skl", ["C04"], tier=tier, timeout=timeout, memsafe=True, fs_array=4096, extra=NOREACH, native_replay=native,
      desc=desc + "; " + INV, encodes=enc, bounds=(PRE % shape) + ("; " + extra_b if extra_b else ""), stubs=SKL_STUBS)


S("c04_build_h213", "quick", "the overlay's builder yields a list satisfying the invariant (validates builder + walker, vacuity witness)",
  [], "3 nodes, towers (2,1,3)", timeout=600)
S("c04_remove_h213", "quick", "ONE SkipList::remove(key), key = any byte (first / middle / last member or absent): returns the member's score, exactly that member leaves, others keep scores",
  ["SkipList::remove", "SkipList::remove_node_by_score", "SkipList::compare_with_query"], "3 nodes, towers (2,1,3)")
S("c04_rescore_h121_l1", "quick", "ONE SkipList::insert(key, score) on an EXISTING member with an arbitrary new score (moves across neighbours, equal scores, +-0.0, +-inf): returns old score, cardinality kept, member present once with the new score",
  ["SkipList::insert", "SkipList::remove_node_by_score", "SkipList::insert_new_node", "SkipList::compare_nodes", "SkipList::compare_with_query"],
  "3 nodes, towers (1,2,1)", "new tower level 1 (2 slots)", native=False)
S("c04_insert_h12_l2", "quick", "ONE SkipList::insert(key, score), key = any byte (new member or re-score), new tower higher than the list level (list level raised)",
  ["SkipList::insert", "SkipList::remove_node_by_score", "SkipList::insert_new_node"], "2 nodes, towers (1,2)", "new tower level 2 (3 slots)", native=False)
S("c04_rank_h213", "quick", "get_score / get_rank / len / is_empty for any key byte: rank == position in (score, member) order, absent => None; list unchanged",
  ["SkipList::get_score", "SkipList::get_rank", "SkipList::len", "SkipList::is_empty"], "3 nodes, towers (2,1,3)")
S("c04_byrank_h213", "quick", "get_by_rank(r) and range_by_rank(a, b) for all usize r, a, b (reversed, out of range, usize::MAX): exactly the members of ranks a..=min(b,len-1) in order; list unchanged",
  ["SkipList::get_by_rank", "SkipList::range_by_rank"], "3 nodes, towers (2,1,3)")
S("c04_byscore_h213", "quick", "range_by_score(min, max) for all non-NaN f64 bounds (reversed, +-inf, +-0.0): exactly the members with min <= score <= max in order; list unchanged",
  ["SkipList::range_by_score"], "3 nodes, towers (2,1,3)")
S("c04_insert_new_h121_l1", "thorough", "ONE SkipList::insert of a NEW member with an arbitrary score into a 3-node list",
  ["SkipList::insert", "SkipList::insert_new_node", "SkipList::compare_nodes"], "3 nodes, towers (1,2,1)", "new tower level 1", native=False)
S("c04_insert_h12_l1", "thorough", "ONE SkipList::insert(key, score), key = any byte, new tower as high as the list",
  ["SkipList::insert", "SkipList::remove_node_by_score", "SkipList::insert_new_node"], "2 nodes, towers (1,2)", "new tower level 1", native=False)

ZSE_STUBS = SKL_STUBS + STD_STUBS + ["SkipList::new -> assert(false): only the absent-key branches of zadd/zincrby call it and every harness starts with the key present (shard-map insertion of a fresh set is outside these harnesses)"]
ZPRE = "key 'z' of db 0 holds a sorted set built directly (%s, production key type Vec<u8> with one-byte members, arbitrary non-NaN scores in order); 1 database, SHARDS_PER_DATABASE = 2, MAX_LEVEL = 4; unwind 5"


# measured (3 in parallel, fs_array 4096): zrange_rest 62 s, zrange_kf 63 s, zrank 45 s, zrangebyscore 245 s, zadd_kf 286 s,
# zincrby_kf 279 s; thorough: zincrby_rest 634 s, zadd_rest 374 s alone but at the 14 GB limit (went out of memory once
# when run next to two other harnesses) -> thorough, run it with VERIF_JOBS <= 3
def Z(name, tier, desc, enc, shape, expect="hold", timeout=1500, native=True, assumptions=(), mem_gb=None):
    K(name, "zse", ["C04"], tier=tier, timeout=timeout, memsafe=True, fs_array=4096, extra=NOREACH, native_replay=native, expect=expect, mem_gb=mem_gb,
      desc=desc, encodes=enc, bounds=ZPRE % shape, stubs=ZSE_STUBS, assumptions=list(assumptions))


Z("c04_e_zrange_rest", "quick", "ZRANGE / ZREVRANGE index translation: start, stop = all isize values, both directions, outside region R: reply == Redis zrangeGenericCommand model (items and order), set unchanged",
  ["StorageEngine::zrange", "SkipList::range_by_rank", "SkipList::len"], "2 members, towers (1,1)",
  assumptions=["not R, R = stop < -len || (reverse && start >= len)"])
Z("c04_e_zrange_kf", "quick", "same inside region R = stop < -len || (reverse && start >= len): expected to fail (ZRANGE z 0 -3 on 2 members returns the first member; ZREVRANGE z 2 5 returns the lowest member; Redis: empty)",
  ["StorageEngine::zrange"], "2 members, towers (1,1)", expect="hold")
Z("c04_e_zadd_rest", "thorough", "ZADD z score m on an existing set, any member byte, any non-NaN score: reply = is-new, member present once with latest score, others unchanged, invariant holds, key still a sorted set",
  ["StorageEngine::zadd", "SkipList::insert", "SkipList::insert_new_node", "SkipList::remove_node_by_score"], "1 member, tower (1), new tower level 1",
  native=False, assumptions=["score is not NaN"], mem_gb=30)
Z("c04_e_zadd_kf", "quick", "ZADD with a NaN score must be refused and change nothing: expected to fail (engine stores NaN; the member can then never be removed)",
  ["StorageEngine::zadd"], "1 member, tower (1), new tower level 1", expect="hold", native=False)
Z("c04_e_zincrby_rest", "thorough", "ZINCRBY z incr m on an existing set, any member byte, any increment whose result is a number: reply == old + incr (incr for a new member), set updated accordingly, invariant holds",
  ["StorageEngine::zincrby", "SkipList::get_score", "SkipList::insert"], "1 member, tower (1), new tower level 0",
  native=False, assumptions=["old score + increment is not NaN"])
Z("c04_e_zincrby_kf", "quick", "ZINCRBY whose result is NaN (NaN increment, +inf + -inf) must be refused and change nothing: expected to fail",
  ["StorageEngine::zincrby"], "1 member, tower (1), new tower level 0", expect="hold", native=False)
Z("c04_e_zrank_n2", "quick", "ZRANK / ZREVRANK / ZSCORE / ZCARD for any member byte: rank == position (len-1-position reversed), score, cardinality; set unchanged",
  ["StorageEngine::zrank", "StorageEngine::zscore", "StorageEngine::zcard", "SkipList::get_rank", "SkipList::get_score"], "2 members, towers (2,1)")
Z("c04_e_zrangebyscore_n2", "quick", "ZRANGEBYSCORE / ZREVRANGEBYSCORE / ZCOUNT for all non-NaN bounds: the members inside the bounds in (reversed) order, count equal",
  ["StorageEngine::zrangebyscore", "StorageEngine::zcount", "SkipList::range_by_score"], "2 members, towers (1,2)")

# Engine M: handler-level obligations of C04 (Server methods are out of Kani's reach)
M("c04_zadd_atomic", ["C04", "C01"], "no_error_after", tier="quick",
  desc="Server::handle_zadd: no argument-error reply (bad score, NaN, bad member) is reachable after StorageEngine::zadd has taken effect for an earlier pair - a refused multi-member ZADD adds nothing (loop heads carry an arbitrary number of earlier iterations' effects)",
  fn=r"::handle_zadd$", effect=r"StorageEngine::zadd$", error=r"RespFrame::error")
