# shared groups (loaded first)
# storage engine, Vec-backed container models, real 16 shards
group("eng", family="vec", shrinks={}, overlays={"src/storage/engine.rs": "ovl_engine.rs"}, fs_array=4096)
# protocol codec: pure code, no container rewrite needed
group("proto", family="std", shrinks={}, overlays={"src/protocol/parser.rs": "ovl_parser.rs"})
# engine with 2 shards per database (functions that loop over all shards: sweeper, scan, keys, flush)
group("eng2s", family="vec", shrinks={"SHARDS_PER_DATABASE": 2}, overlays={"src/storage/engine.rs": "ovl_engine.rs"}, fs_array=4096)
# engine with the two `x.chars().collect()` lines of the glob matcher replaced by an ASCII-exact byte->char copy
group("engglob", family="vec", shrinks={}, overlays={"src/storage/engine.rs": "ovl_engine.rs"},
      subst=[(r"(\w+)\.chars\(\)\.collect\(\)", r"crate::verif_common::ascii_chars(\1)", "src/storage/engine.rs")])
