# shared groups (loaded first)
# storage engine, Vec-backed container models, real 16 shards
group("eng", family="vec", shrinks={}, overlays={"src/storage/engine.rs": "ovl_engine.rs"})
# protocol codec: pure code, no container rewrite needed
group("proto", family="std", shrinks={}, overlays={"src/protocol/parser.rs": "ovl_parser.rs"})
