# C05: one reply per request, errors are replies, framing.  Engine M over process_connection,
# Engine K over the serializer/parser (group "proto" is defined in c20_codec.py, loaded first).
M("c05_one_reply_per_frame", ["C05"], "loop_one_push", tier="quick",
  desc="Server::process_connection, one arbitrary iteration of the frame loop: exactly one response is pushed on every path that finishes the iteration, and the function cannot leave the loop in the middle of an iteration (an Err from process_frame must become an error reply, not a dropped connection). The replication handshake (handle_sync_command) may fail the connection.",
  assumptions=["calls uninterpreted; one loop iteration with arbitrary state at the loop head (back edge cut, loop-modified locals havocked)",
               "responses are sent in vector order by the send loop (c05_send_loop)"],
  fn=r"::process_connection$", head=r"IntoIter<RespFrame> as Iterator>::next$", push=r"Vec::<RespFrame>::push$", count=1,
  allow_exit=[r"^Server::handle_sync_command$"])

FMT = ["alloc::fmt::format -> empty String (error wording is not part of any property)"]
for _nm in ("error", "simple"):
  K("c05_line_framing_" + _nm, "proto", ["C05"], tier="quick", timeout=1500,
  desc="reply framing cannot be changed by payload content: a SimpleString/Error reply with ARBITRARY payload bytes (incl. CR/LF echoed from a request) serialises to bytes that parse back as exactly one frame of the same type consuming exactly those bytes, with a payload of the same length",
  encodes=["serialize_resp_frame", "write_line_payload", "parse_frame", "parse_line"],
  bounds="payload 3 arbitrary symbolic bytes (and lengths 0..3 via the c20_rt harnesses); unwind 8", stubs=FMT)
M("c05_timeout_reply_once", ["C05", "C13"], "reach_allow", tier="quick",
  desc="Server::process_blocked_timeouts, the per-connection closure: with the connection NOT in the Blocked state (e.g. the second report of a client that was blocked on two keys and has already been answered) no reply is sent - a timed-out blocking pop is answered exactly once",
  assumptions=["ConnectionState discriminants: Connected 0, Authenticated 1, Blocked 2, Closing 3 (declaration order, checked by the vacuity twin c05_timeout_reply_sanity)"],
  fn=r"process_blocked_timeouts::\{closure#0\}$", assume_disc=[(r"ConnectionState", 2, "ne")], deny=[r"Connection::send_frame$"], must_reach=[], descend=True)
M("c05_timeout_reply_sanity", ["C05", "C13"], "reach_allow", tier="quick",
  desc="vacuity twin: with the connection in the Blocked state the nil reply IS sent",
  fn=r"process_blocked_timeouts::\{closure#0\}$", assume_disc=[(r"ConnectionState", 2)], allow=[r"."], must_reach=[r"Connection::send_frame$"], descend=True)
