CLK = ["std::time::Instant::now -> verif_common::now_manual (clock value set by the harness; deadline and clock both symbolic)", "std::panic::catch_unwind -> Ok(f())", "alloc::fmt::format -> empty String"]
B = "deadline D = T0 + (u16 s, u32 ns), clock t = T0 + (u16 s, u32 ns), all symbolic (every offset in a 18-hour window at nanosecond resolution); value 2 symbolic bytes; unwind 5"
for nm, what in (("get", "GET: t > D => nil and the key is removed; t < D => intact value, TTL unchanged"),
                 ("exists", "EXISTS: t > D => 0; t < D => 1"),
                 ("setnx", "SETNX: t > D => sets (no TTL on the new value); t < D => refuses, value intact")):
    K("c02_%s_deadline" % nm, "eng", ["C02"], tier="quick", timeout=900, desc=what, encodes=["StorageEngine::get/get_string/exists/set_string_nx", "ValueMetadata::is_expired"], bounds=B, stubs=CLK)
K("c02_set_clears_ttl", "eng", ["C02"], tier="quick", timeout=900, desc="SET over a key that has a TTL leaves no TTL on the value", encodes=["StorageEngine::set_value"], bounds="1-byte values symbolic", stubs=CLK)
K("c02_expire_persist_ttl", "eng", ["C02", "C08"], tier="quick", timeout=900,
  desc="EXPIRE with any (u32 s, ns) duration sets deadline = now + ttl keeping the value; TTL/PTTL report remaining time, -1 without TTL, -2 for a missing key; PERSIST clears TTL and index; EXPIRE and PERSIST are reported to watchers (C08)",
  encodes=["StorageEngine::expire/persist/ttl/pttl", "ValueMetadata::set_expiration/clear_expiration"], bounds="duration secs u32 x nanos symbolic; unwind 5", stubs=CLK)
for nm, what in (("strlen", "STRLEN"), ("delete", "DEL"), ("type", "TYPE"), ("pttl", "PTTL"), ("append", "APPEND"), ("expire", "EXPIRE")):
    K("c02_expired_%s_kf" % nm, "eng", ["C02"], tier="quick" if nm in ("strlen", "delete") else "thorough", timeout=900, expect="kf:KF-C02-lazy-%s" % nm,
      desc="%s on a key whose deadline has passed (clock symbolic, sweeper not yet run) must treat the key as absent" % what,
      encodes=["StorageEngine::strlen/delete/key_type/pttl/append/expire"], bounds=B, stubs=CLK)
K("c06_expire_any_duration", "eng", ["C06", "C02"], tier="quick", timeout=900, desc="EXPIRE with ANY Duration (u64 seconds, nanos) never panics (Instant + Duration overflow)", encodes=["StorageEngine::expire", "ValueMetadata::set_expiration"], bounds="secs full u64, nanos < 1e9", stubs=CLK)
K("c06_setex_any_duration", "eng", ["C06", "C02"], tier="quick", timeout=900, desc="SET EX/PX with ANY Duration never panics", encodes=["StorageEngine::set_string_ex/set_value", "StoredValue::with_expiration"], bounds="secs full u64, nanos < 1e9", stubs=CLK)
for nm, what in (("nottl_staleidx", "value WITHOUT TTL but a (stale) index entry with any instant - the state SET over SET EX, SETNX over an expired key, PERSIST or RENAME can leave behind"),
                 ("ttl_idx", "value with deadline D and index entry I (any two instants, I may be stale)"),
                 ("ttl_noidx", "value with deadline but no index entry")):
    K("c02_sweepstep_" + nm, "eng", ["C02", "C08"], tier="quick", timeout=900,
      desc="the sweeper's per-key step DatabaseShard::remove_if_expired on a shard built on the stack, " + what + ": removes the key iff its STORED deadline <= now (any clock), never a key without TTL or with a future deadline; index brought back in step; watchers notified iff removed",
      encodes=["DatabaseShard::remove_if_expired", "ShardWatchTracker::mark_key_modified"],
      bounds="deadline, index instant, clock: symbolic (u16 s, u32 ns) each; 1-byte value; unwind 5", stubs=CLK)
M("c02_sweeper_only_via_step", ["C02"], "reach_allow", tier="quick",
  desc="MIR of StorageEngine::expiration_cleanup_loop: the sweeper removes keys from a shard ONLY through DatabaseShard::remove_if_expired (which re-checks the stored deadline under the write lock); no direct HashMap::remove on the data map is reachable",
  fn=r"::expiration_cleanup_loop$", deny=[r"^(std::collections::)?HashMap::(remove|clear|retain|drain)$"],
  must_reach=[r"remove_if_expired$"])
K("c02_setex_deadline", "eng", ["C02"], tier="quick", timeout=900,
  desc="SET EX / SET NX EX with any (u32 s, ns) duration incl. zero: the value carries deadline = now + ttl and the expiry index holds the same instant",
  encodes=["StorageEngine::set_string_ex", "set_string_nx_ex", "set_value", "StoredValue::with_expiration"], bounds="secs u32, nanos symbolic; 1-byte value", stubs=CLK)
