# C11 AOF redo log: Engine M (catalogue over all strings, append-before-dispatch); the frame round
# trip of what append_command writes is the Kani harness c20_rt_bulk (arrays of bulk strings are
# written through the same serializer).
WRITE_CATALOGUE = [
    "SET", "INCR", "DECR", "INCRBY", "DECRBY", "DEL", "EXPIRE", "PEXPIRE", "PERSIST", "FLUSHDB", "FLUSHALL",
    "SETNX", "SETEX", "PSETEX", "MSET", "GETSET", "APPEND", "SETRANGE", "RENAME", "RENAMENX",
    "LPUSH", "RPUSH", "LPOP", "RPOP", "LSET", "LTRIM", "LREM", "BLPOP", "BRPOP",
    "SADD", "SREM", "SPOP", "HSET", "HMSET", "HDEL", "HINCRBY",
    "ZADD", "ZREM", "ZINCRBY", "ZPOPMIN", "ZPOPMAX",
    "XADD", "XTRIM", "XDEL", "XGROUP", "XREADGROUP", "XACK", "XCLAIM", "EVAL", "EVALSHA",
]
M("c11_write_catalogue", ["C11"], "string_set", tier="quick",
  desc="Server::is_write_command as a function of ONE string variable (its MIR is a chain of string comparisons against constants): the solver searches all strings for one on which it disagrees with the catalogue of state-changing commands the server dispatches (misses = state change not logged; extras = read-only command logged).",
  assumptions=["the catalogue in /verif/reg/c11_aof.py (state-changing commands among those dispatched by process_normal_command) is the specification"],
  fn=r"::is_write_command$", arg="_2", spec=WRITE_CATALOGUE, spec_name="write-command catalogue", may=[])
M("c11_append_before_dispatch", ["C11"], "dominates", tier="quick",
  desc="Server::process_normal_command: with an AOF engine configured and is_write_command(name) true, AofEngine::append_command has been called on every feasible path before any handler call (so every state-changing command that takes effect through the dispatch is represented in the log, in execution order of the single command thread).",
  assumptions=["calls uninterpreted; the discriminant of self.aof_engine is assumed Some; is_write_command's result assumed true"],
  fn=r"::process_normal_command$", before=r"AofEngine::append_command$",
  target=r"^(Server::handle_(set|del|incr|lpop|spop|zadd|expire|flushdb)$|handle_(lpush|hset|sadd|xadd|mset|append|rename|persist)$)",
  assume_sites=[(r"Server::is_write_command$", True)], assume_disc=[(r"aof_engine|AofEngine", 1)])
M("c11_append_sanity_no_aof", ["C11"], "dominates", tier="quick",
  desc="vacuity twin of c11_append_before_dispatch: with aof_engine == None the handlers ARE reachable without append_command (so the ordering query is not vacuous)",
  fn=r"::process_normal_command$", before=r"AofEngine::append_command$",
  target=r"^(Server::handle_(set|del)$|handle_(lpush|hset)$)", assume_disc=[(r"aof_engine|AofEngine", 0)], sanity_expect_fail=True)
M("c11_wakeup_pop_logged", ["C11", "C13"], "dominates", tier="quick",
  desc="Server::wake_client (a blocked client being served): the pop it performs on behalf of the blocked client (StorageEngine::lpop/rpop) must be preceded by an AOF append on every path",
  fn=r"::wake_client$", before=r"AofEngine::append_command$", target=r"StorageEngine::(lpop|rpop)$", expect="kf:KF-C11-wakeup-unlogged")
