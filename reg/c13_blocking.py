# C13 blocking pops: BlockingRegistry, inline container models (CAP = 4).
# Registry states are built directly (std container API, no ferrous call) for every concrete SHAPE
# (which client waits on which of the keys "a","b"); connection ids (pairwise distinct, full-width
# u64), deadlines and BLPop/BRPop are symbolic; shapes are enumerated in straight-line code inside
# the harness (a symbolic shape: 69 M clauses / out of memory for 2 clients).
# NOT registered because they do not finish (see the build report for C13/C14):
#   unregister_client and get_expired_clients (iterate the map with iter_mut and push keys into a
#   Vec under data-dependent guards: > 7 min of symex / out of memory even with concrete ids, a
#   concrete expiry pattern and fs_array=4096) and the BlockingManager (SegQueue) level.  Their
#   harness code is kept in ovl_blocking.rs (unregister_case, expired_case, expired_clock_case).
group("blk", family="inline", shrinks={}, overlays={"src/network/blocking.rs": "ovl_blocking.rs"})

INV = ("afterwards the complete registry equals the model: (a) every queue = its clients in registration order, "
       "(b) blocked_keys == keys of blocked_on_key == keys with a non-empty queue == has_blocked_clients, "
       "(c) the removed client is queued under NO key")
B2 = "all 13 shapes with <=2 clients over 2 keys (<=2 keys per client) + 4 selected 3-client shapes; ids/deadlines/op symbolic; containers <= CAP=4; unwind 6"

K("c13_register_small", "blk", ["C13"], tier="quick", timeout=900, fs_array=4096,
  desc="register_blocked_client of a new client with keys [a] / [a,b] into an empty registry and [a] next to a client waiting on b: client appended to each named queue, record (deadline) stored intact; " + INV,
  encodes=["BlockingRegistry::register_blocked_client", "BlockingRegistry::has_blocked_clients"],
  bounds="3 instances (pre-states {}, {}, {c1:b}); ids, deadline (None | any Instant), op symbolic; CAP=4; unwind 6", stubs=[])
K("c13_register_behind", "blk", ["C13"], tier="quick", timeout=900, fs_array=4096,
  desc="register_blocked_client behind a client already waiting on the same key: FIFO position (last), first waiter untouched; " + INV,
  encodes=["BlockingRegistry::register_blocked_client"], bounds="pre-state {c1:a}, new client on [a]; ids, deadlines, op symbolic; CAP=4; unwind 6", stubs=[])
# c13_register_dupkey_kf (BLPOP a a queues the client twice) ran out of memory inside run.py (held 0/276 checks decided): not registered; defect reported by reading
K("c13_pop_rest_key_a", "blk", ["C13"], tier="quick", timeout=900,
  desc="pop_first_waiter(a) outside the defect region (head of a's queue waits on a only, or nobody waits): returns the client that blocked first (FIFO) with its registered op type, None iff nobody waits; " + INV,
  encodes=["BlockingRegistry::pop_first_waiter", "BlockingRegistry::has_blocked_clients"], bounds=B2,
  assumptions=["region split: instances whose popped client waits on both keys are in c13_pop_multikey_kf"], stubs=[])
K("c13_pop_rest_key_b", "blk", ["C13"], tier="quick", timeout=900,
  desc="pop_first_waiter(b) (second-inserted key) and on a key nobody ever waited on, outside the defect region; same obligations as c13_pop_rest_key_a",
  encodes=["BlockingRegistry::pop_first_waiter", "BlockingRegistry::has_blocked_clients"], bounds=B2,
  assumptions=["region split: instances whose popped client waits on both keys are in c13_pop_multikey_kf"], stubs=[])
K("c13_pop_multikey_kf", "blk", ["C13"], tier="quick", timeout=900, expect="kf:KF-C13-leftover",
  desc="pop_first_waiter where the popped client waits on both keys: invariant (c) - ferrous leaves the served client queued under its other key (a later push to that key wakes a client that is no longer blocked and wake_client drops the popped element)",
  encodes=["BlockingRegistry::pop_first_waiter"], bounds=B2, stubs=[])
K("c13_prestate_wf", "blk", ["C13"], tier="thorough", timeout=1500,
  desc="sanity of the harness machinery: every directly built pre-state satisfies invariants (a),(b) under the checker used by all C13 harnesses",
  encodes=["BlockingRegistry::has_blocked_clients"], bounds=B2, stubs=[])
# 3-client pop harnesses (c13_pop_rest_n3_f1/f2, c13_pop_multikey_n3_kf) exist in the overlay but were not run to completion: not registered

# Engine M: a successful push looks for blocked clients (server-level half of "served promptly")
for _cmd in ("LPUSH", "RPUSH"):
    M("c13_push_checks_waiters_" + _cmd.lower(), ["C13"], "reach_allow", tier="quick",
      desc="Server::process_normal_command, command %s: on an execution on which the handler answered Integer(7) for a 3-part request with a bulk-string key, BlockingManager::has_blocked_clients IS consulted (every successful push - whatever the resulting length - must look for waiters, otherwise a blocked client is stranded while its key holds elements)" % _cmd,
      assumptions=["RespFrame discriminants: Integer 2, BulkString 3; Result Ok 0; Option Some 1 (declaration order)"],
      fn=r"::process_normal_command$", assume_debug={"command_name": _cmd},
      assume_disc=[(r"^disc:\(\*_\d+\) : &std::result::Result<protocol::resp::RespFrame", 0), (r"as Ok\)\.0: protocol::resp::RespFrame\) :", 2), (r"^disc:\(\*_\d+\) : &protocol::resp::RespFrame$", 3), (r"as BulkString\)\.0: std::option::Option", 1)],
      assume_place=[(r"as Integer\)\.0: i64", 7), (r"^len:_2$", 3)],
      assume_text="reply Integer(7), 3 parts, bulk key", allow=[r"."], must_reach=[r"BlockingManager::has_blocked_clients$"], must_reach_violation=True)
