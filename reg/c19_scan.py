VEC = ["std::vec::Vec::new -> Vec::with_capacity(8)", "std::vec::Vec::push -> write without growing (overflow fails the harness)", "std::ptr::copy -> exact per-element moves"]
def S(name, desc, tier="quick", expect="hold"):
    K(name, "eng2s", ["C19"], tier=tier, timeout=1500, expect=expect, desc=desc,
      encodes=["StorageEngine::scan", "StorageEngine::delete"], bounds="3 keys 'a','b','c' over 2 shards (const shrunk) with symbolic 1-byte values; COUNT concrete per harness; at most 5 calls (asserted <= 4); unwind 8",
      stubs=STD_STUBS + VEC + ["alloc::fmt::format -> empty String"])
S("c19_scan_count1_stable", "full SCAN iteration with COUNT 1 over an unchanging key set: every key returned, nothing else, terminates within |S|+1 calls")
S("c19_scan_count2_stable", "same with COUNT 2", tier="thorough")
S("c19_scan_count1_add", "full SCAN iteration with COUNT 1 while another key ('d') is added after the first call: the keys that existed throughout are all returned")
S("c19_scan_count1_delete_kf", "full SCAN iteration with COUNT 1 while an already-returned smaller key ('a') is deleted after the first call: the keys that existed throughout ('b','c') must still all be returned", expect="kf:KF-C19-index-cursor")
# engine glob (MATCH / KEYS) vs the Redis stringmatchlen recurrence.  The UTF-8 decoder of the two
# `x.chars().collect()` lines does not fit (OOM / > 15 min for 2x3 bytes), so group "engglob" replaces
# exactly those two lines by an ASCII-exact byte->char copy (a non-ASCII byte fails the harness);
# the matcher loop itself is the real code.
for nm, P, T, tier, to in (("c19_glob_p2_t3", 2, 3, "quick", 1800), ("c19_glob_p3_t3", 3, 3, "thorough", 3600)):
    K(nm, "engglob", ["C19"], tier=tier, timeout=to, desc="engine pattern_matches(pattern, text) == reference glob matcher for every ASCII pattern of %d bytes without '[' and '\\' and every ASCII text of %d bytes (star backtracking, '?', literals)" % (P, T),
      encodes=["storage::engine::pattern_matches"], bounds="pattern %d symbolic ASCII bytes (no '[', no backslash), text %d symbolic ASCII bytes; unwind %d" % (P, T, 12 if P == 2 else 14),
      stubs=VEC, assumptions=["the two `.chars().collect()` calls are replaced by verif_common::ascii_chars (exact for ASCII input; non-ASCII input is outside the claim)", "character classes and escapes are outside the claim for the engine matcher (decided for the pub/sub matcher under C14)"],
      native_replay=False)
