VEC = ["std::vec::Vec::new -> Vec::with_capacity(8)", "std::vec::Vec::push -> write without growing (overflow fails the harness)", "std::ptr::copy -> exact per-element moves"]
def S(name, desc, tier="quick", expect="hold"):
    K(name, "eng2s", ["C19"], tier=tier, timeout=1500, expect=expect, desc=desc,
      encodes=["StorageEngine::scan", "StorageEngine::delete"], bounds="3 keys 'a','b','c' over 2 shards (const shrunk) with symbolic 1-byte values; COUNT concrete per harness; at most 5 calls (asserted <= 4); unwind 8",
      stubs=STD_STUBS + VEC + ["alloc::fmt::format -> empty String"])
S("c19_scan_count1_stable", "full SCAN iteration with COUNT 1 over an unchanging key set: every key returned, nothing else, terminates within |S|+1 calls")
S("c19_scan_count2_stable", "same with COUNT 2", tier="thorough")
S("c19_scan_count1_add", "full SCAN iteration with COUNT 1 while another key ('d') is added after the first call: the keys that existed throughout are all returned")
S("c19_scan_count1_delete_kf", "full SCAN iteration with COUNT 1 while an already-returned smaller key ('a') is deleted after the first call: the keys that existed throughout ('b','c') must still all be returned", expect="kf:KF-C19-index-cursor")
# engine glob vs reference (c19_glob_*): CBMC out of memory / > 15 min even for 2x3 bytes (Vec<char> collection of both strings) - not registered
