# C10 / C11: file-level structure on the MIR
M("c10_snapshot_flushed", ["C10"], "must_call", tier="quick",
  desc="RdbEngine::write_snapshot returns Ok only on executions that flushed the buffered writer (an I/O error of the last buffered bytes must surface as Err, otherwise save() renames an incomplete temp file over the previous dump)",
  fn=r"RdbEngine::write_snapshot$|rdb::.*::write_snapshot$", call=r"::flush$", call_name="flush")
M("c10_rename_after_write", ["C10"], "dominates", tier="quick",
  desc="RdbEngine::save: std::fs::rename(temp, final) is reachable only after write_snapshot has been called (and its `?` passed) on the same execution",
  fn=r"RdbEngine::save$|rdb::.*>::save$", before=r"write_snapshot$", target=r"(^|::)rename::<")
M("c11_aof_opened_for_append", ["C11"], "dominates", tier="quick",
  desc="AofEngine::init: the log file is opened (OpenOptions::open) only on executions that have set OpenOptions::append before: re-opening an existing log must never overwrite it from offset 0",
  fn=r"AofEngine::init$|aof::.*::init$", before=r"OpenOptions::append$", target=r"OpenOptions::open")
