# C18 database isolation: Engine M argument-flow over the dispatch (Engine K part: reg/c18_engine.py)
DB_FREE = [r"^Server::handle_(ping|echo|select|flushall|save|bgsave|lastsave|bgrewriteaof|info|slowlog|memory|client|auth|replicaof|slaveof|command|shutdown|script|config|monitor|quit|sync_command)\w*$"]
M("c18_db_arg_dispatch", ["C18"], "arg_flow", tier="quick",
  desc="Server::process_normal_command: every handler that has a database parameter (db / db_index) receives the caller's `db` unchanged on every feasible path (solver: operand != db unsat), and every reachable Server::handle_* / storage command handler WITHOUT a database parameter is in the reviewed list of database-independent commands.",
  assumptions=["callee parameters are identified by their source names db/db_index in the callee's MIR debug info",
               "the list of database-independent handlers in /verif/reg/c18_dbs.py is part of the specification"],
  fn=r"::process_normal_command$", param="db", callee_params=["db", "db_index", "db_idx", "database"],
  needs=[r"^Server::handle_\w+$", r"^handle_\w+$"], exempt=DB_FREE + [r"^handle_(bgrewriteaof|info|replicaof|slaveof|sync|psync|shutdown)$", r"^handle_config$", r"^handle_slowlog", r"^handle_memory", r"^handle_client", r"^handle_monitor", r"^handle_debug", r"^handle_script", r"^handle_aof", r"^handle_command"])
M("c18_db_arg_exec", ["C18", "C07"], "arg_flow", tier="quick",
  desc="Server::process_command_parts (EXEC path) passes its db parameter unchanged to process_normal_command",
  fn=r"::process_command_parts$", param="db", callee_params=["db", "db_index"])
M("c18_db_arg_evalsha", ["C18", "C12"], "arg_flow", tier="quick",
  desc="Server::handle_evalsha_command passes its db parameter unchanged to the Lua entry point (EVALSHA runs in the connection's selected database, like EVAL)",
  fn=r"::handle_evalsha_command$", param="db", callee_params=["db", "db_index"])

# the script path: redis.call -> LuaCommandAdapter::execute_lua_command -> UnifiedCommandExecutor::execute_* (db)
for _fn in ("execute_string", "execute_list", "execute_set", "execute_hash", "execute_sorted_set", "execute_key", "execute_stream", "execute_scan", "execute_consumer_group", "execute_bit"):
    M("c18_db_arg_" + _fn, ["C18"], "arg_flow", tier="quick",
      desc="UnifiedCommandExecutor::%s (commands issued by scripts through redis.call): every StorageEngine call that has a database parameter receives this function's db unchanged on every feasible path" % _fn,
      fn=r"UnifiedCommandExecutor::%s$|executor::.*::%s$" % (_fn, _fn), param="db", callee_params=["db", "db_index"])

# redis.call / redis.pcall closures registered by LuaEngine::create_lua_context: both must hand the
# script's database (captured ctx.db_index) to the command bridge, which hands it to the executor
for _n, _what in ((2, "redis.call"), (4, "redis.pcall")):
    M("c18_db_arg_lua_closure%d" % _n, ["C18"], "arg_flow", tier="quick",
      desc="the %s closure of LuaEngine::create_lua_context passes the captured db_index (the database the script was started on) unchanged to execute_unified_redis_command" % _what,
      fn=r"create_lua_context::\{closure#%d\}$" % _n, param="db_index", callee_params=["db", "db_index"], param_required=True)
M("c18_db_arg_lua_bridge", ["C18"], "arg_flow", tier="quick",
  desc="LuaEngine::execute_unified_redis_command passes its db_index unchanged to LuaCommandAdapter::execute_lua_command",
  fn=r"::execute_unified_redis_command$", param="db_index", callee_params=["db", "db_index"])
M("c18_select_index_unsigned", ["C18"], "reach_allow", tier="quick",
  desc="Server::handle_select parses the database index as an unsigned integer (str::parse::<usize>), so that negative indexes are refused by the parser before any range test or cast; no signed parse is reachable",
  fn=r"::handle_select$", deny=[r"parse::<i(8|16|32|64|128|size)>$"], must_reach=[r"parse::<usize>$", r"RespFrame::error"])
