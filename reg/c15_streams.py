# streams: Stream / StreamData / StreamId level, Vec-backed container models
# subst: the Vec::push stub has to name Vec's allocator parameter (unstable feature gate, cfg(kani) only)
group("stream", family="vec", shrinks={}, overlays={"src/storage/stream.rs": "ovl_stream.rs"},
      subst=[(r"\A", "#![cfg_attr(kani, feature(allocator_api))]\n", "src/lib.rs")])

VEC = ["std::vec::Vec::new -> Vec::with_capacity(4) (capacity is unobservable)",
       "std::vec::Vec::push -> write without growing; a push beyond the reserved capacity FAILS the harness (nothing cut)"]
CLONE0 = ["<StreamEntry as Clone>::clone -> exact clone for entries with an empty field map (shape asserted inside the stub)"]
CLOCK = ["storage::stream::get_cached_millis -> arbitrary u64 chosen by the harness (over-approximates the cached wall clock; the real function is decided by c15_cached_millis_total)"]
INV = "pre-state: any stream satisfying the invariant (entries strictly increasing, all <= last_id, three last_id copies and length agree)"

K("c15_id_order", "stream", ["C15"], tier="quick", timeout=300,
  desc="StreamId order is lexicographic on (millis, seq); new/millis/seq round trip; min/max are the extremes",
  encodes=["StreamId::new", "StreamId::millis", "StreamId::seq", "StreamId::cmp", "StreamId::partial_cmp", "StreamId::min", "StreamId::max"],
  bounds="two full-width symbolic IDs (4 x u64)")
K("c15_id_parse_rest", "stream", ["C15", "C06"], tier="quick", timeout=600,
  desc="StreamId::from_string on every ASCII text of <=5 bytes without an empty numeric part == reference grammar <ms>-<seq> (the <ms> short form is refused cleanly); never panics",
  encodes=["StreamId::from_string", "StreamId::parse_u64_fast"], bounds="<=5 symbolic ASCII bytes, symbolic length; unwind 7")
K("c15_id_parse_kf", "stream", ["C15", "C06"], tier="thorough", timeout=600, expect="hold",
  desc="region: text has an empty numeric part ('-', '5-', '-5'): must be refused, ferrous reads the empty part as 0",
  encodes=["StreamId::from_string", "StreamId::parse_u64_fast"], bounds="<=5 symbolic ASCII bytes; unwind 7")
K("c15_xadd_idbytes_rest", "stream", ["C15", "C06"], tier="quick", timeout=600, memsafe=True,
  desc="XADD explicit-ID argument path (from_utf8_unchecked + StreamId::from_string, as in commands::streams::handle_xadd) on arbitrary bytes incl. invalid UTF-8, outside the region 'byte after the first dash is a UTF-8 continuation byte': no panic, accepted => digits-dash-digits with the reference value",
  encodes=["StreamId::from_string", "StreamId::parse_u64_fast", "(two-line idiom of handle_xadd lines 53-55, copied into the harness)"],
  bounds="<=4 arbitrary bytes, symbolic length; unwind 6")
K("c15_xadd_idbytes_kf", "stream", ["C15", "C06"], tier="thorough", timeout=600, memsafe=True, expect="hold",
  desc="region: byte after the first '-' is 0x80..0xBF (e.g. XADD k \"1-\\x80\" f v): &seq_str[1..] panics (not a char boundary)",
  encodes=["StreamId::from_string"], bounds="<=4 arbitrary bytes; unwind 6")
K("c15_parse_u64_20digits_rest", "stream", ["C15", "C06"], tier="quick", timeout=600,
  desc="parse_u64_fast on 20 decimal digits whose value fits u64: exact value",
  encodes=["StreamId::parse_u64_fast"], bounds="exactly 20 symbolic digits; unwind 22")
K("c15_parse_u64_20digits_kf", "stream", ["C15", "C06"], tier="thorough", timeout=600, expect="hold",
  desc="region: 20-digit value above u64::MAX (e.g. 18446744073709551616-0): must be refused, ferrous wraps silently (accepted as 0-0...)",
  encodes=["StreamId::parse_u64_fast"], bounds="exactly 20 symbolic digits; unwind 22")
K("c15_cached_millis_total", "stream", ["C15", "C06"], tier="quick", timeout=600,
  desc="get_cached_millis with an arbitrary wall-clock reading (also before the epoch, also behind the cached reading) and arbitrary cache content: no panic; result is the cached value or the reading in ms",
  encodes=["storage::stream::get_cached_millis"], bounds="clock (i64 s, u32 ns) and cache content symbolic; unwind 4",
  stubs=["std::time::SystemTime::now -> reading chosen by the harness (transmuted Timespec; layout asserted in the harness)"])
K("c15_auto_id_rest", "stream", ["C15"], tier="quick", timeout=600,
  desc="XADD * from a stream with one present entry, arbitrary last_id >= it, arbitrary wall clock (also behind last_id), outside the region 'seq == u64::MAX and clock <= last ms': new ID > last_id (hence > every ID ever added), all three last_id copies == new ID, XLEN + 1, entry appended with its field-value pair",
  encodes=["Stream::add_auto", "StreamData::add_auto", "StreamId::generate_next_atomic"], bounds="1 entry; IDs, last_id, clock full-width symbolic; unwind 4",
  stubs=VEC + CLONE0 + CLOCK, assumptions=[INV])
K("c15_auto_id_kf", "stream", ["C15", "C06"], tier="thorough", timeout=600, expect="kf:KF-C15-auto-seq-overflow",
  desc="region: last_id.seq == u64::MAX and wall clock <= last_id.millis (XADD k 5-18446744073709551615 ..; XADD k * ..): seq + 1 overflows (panic in debug, ID 5-0 < last in release)",
  encodes=["StreamId::generate_next_atomic"], bounds="as c15_auto_id_rest", stubs=VEC + CLONE0 + CLOCK, assumptions=[INV])
K("c15_auto_id_emptied", "stream", ["C15"], tier="quick", timeout=600,
  desc="XADD * on an empty stream with arbitrary last_id (new stream 0-0, or emptied by XDEL/XTRIM): new ID > last_id; metadata agree",
  encodes=["Stream::add_auto", "StreamId::generate_next_atomic"], bounds="0 entries; last_id, clock symbolic (outside the KF-C15-auto-seq-overflow region); unwind 4",
  stubs=VEC + CLONE0 + CLOCK, assumptions=[INV])
K("c15_add_explicit", "stream", ["C15"], tier="quick", timeout=900,
  desc="XADD with explicit ID on a 2-entry stream: id <= last_id refused with entries, last_id copies, XLEN and memory counter unchanged; id > last_id appended, becomes last_id in all copies, keeps its field-value pair",
  encodes=["Stream::add_with_id", "StreamData::add_with_id", "StreamData::calculate_entry_size"], bounds="2 entries; all IDs full-width symbolic; unwind 5",
  stubs=VEC + CLONE0, assumptions=[INV])
for d, nm in ((False, "fwd"), (True, "rev")):
    K("c15_range_%s_n3_rest" % nm, "stream", ["C15"], tier="quick", timeout=900,
      desc="%s on a 3-entry stream, start/end/COUNT arbitrary, outside the region 'end below the first entry and start <= first entry': reply == present entries with start <= id <= end, in %s order, first COUNT; state untouched" % ("XREVRANGE" if d else "XRANGE", "reverse" if d else "ID"),
      encodes=["Stream::range", "StreamData::range"], bounds="3 entries with empty field maps; IDs, bounds full-width symbolic; COUNT any Option<usize>; unwind 5",
      stubs=VEC + CLONE0, assumptions=[INV])
    K("c15_range_%s_n3_kf" % nm, "stream", ["C15"], tier="thorough", timeout=900, expect="hold",
      desc="region: end < first present ID and start <= first present ID (e.g. entries 5-0.., %s): reply must be empty, ferrous returns the first entry" % ("XREVRANGE k 3 1" if d else "XRANGE k 1 3"),
      encodes=["StreamData::range"], bounds="as the _rest harness", stubs=VEC + CLONE0, assumptions=[INV])
K("c15_range_n0_emptied", "stream", ["C15"], tier="quick", timeout=300,
  desc="XRANGE/XREVRANGE on an emptied stream (0 entries, arbitrary last_id): empty reply, no panic",
  encodes=["Stream::range", "StreamData::range"], bounds="0 entries; bounds, COUNT, direction symbolic; unwind 5", stubs=VEC + CLONE0, assumptions=[INV])
K("c15_range_fwd_n1_rest", "stream", ["C15"], tier="thorough", timeout=600,
  desc="XRANGE on a 1-entry stream (same claim as c15_range_fwd_n3_rest)", encodes=["StreamData::range"],
  bounds="1 entry; unwind 5", stubs=VEC + CLONE0, assumptions=[INV])
K("c15_range_fields", "stream", ["C15"], tier="thorough", timeout=1800,
  desc="XRANGE reply carries the stored field-value pair of every selected entry (2 entries, one 1-byte pair each, symbolic bytes, symbolic bounds outside the known-finding region)",
  encodes=["Stream::range", "StreamData::range"], bounds="2 entries; unwind 5",
  stubs=VEC + ["<StreamEntry as Clone>::clone -> exact clone for entries with exactly one 1-byte field and 1-byte value (shape asserted inside the stub)"], assumptions=[INV])
K("c15_range_after_n3", "stream", ["C15"], tier="quick", timeout=900,
  desc="XREAD core: range_after(id, COUNT) on a 3-entry stream == present entries with ID > id, in order, first COUNT (id present, absent, below, above); state untouched",
  encodes=["Stream::range_after", "StreamData::range_after"], bounds="3 entries; IDs, after, COUNT symbolic; unwind 5", stubs=VEC + CLONE0, assumptions=[INV])
K("c15_delete_one_n3", "stream", ["C15"], tier="quick", timeout=900,
  desc="XDEL of one arbitrary ID on a 3-entry stream: exactly that entry (if present) disappears, reply 0/1, XLEN == present entries, last_id (all copies) unchanged even when the top entry goes, memory counter no underflow",
  encodes=["Stream::delete", "StreamData::calculate_entry_size"], bounds="3 entries, 1 ID; all symbolic; unwind 4", assumptions=[INV])
K("c15_delete_two_n2", "stream", ["C15"], tier="thorough", timeout=1500,
  desc="XDEL of two arbitrary IDs (present, absent, equal to each other) on a 2-entry stream: the same ID twice counts once; post-state as c15_delete_one_n3",
  encodes=["Stream::delete"], bounds="2 entries, 2 IDs; unwind 4",
  stubs=["std::ptr::copy -> per-element moves in the overlap-safe direction (exact memmove)"], assumptions=[INV])
K("c15_trim_count_n3", "stream", ["C15"], tier="quick", timeout=600,
  desc="XTRIM MAXLEN n on a 3-entry stream, every n: the newest min(n,3) entries stay, reply == removed, XLEN agrees, last_id unchanged (also when trimmed to empty)",
  encodes=["Stream::trim_by_count"], bounds="3 entries; n any usize; unwind 4", assumptions=[INV])
K("c15_trim_minid_n3", "stream", ["C15"], tier="thorough", timeout=600,
  desc="trim_by_min_id on a 3-entry stream: exactly the entries below min_id go; last_id unchanged (not reachable from a command: XTRIM MINID is not implemented)",
  encodes=["Stream::trim_by_min_id"], bounds="3 entries; min_id symbolic; unwind 4", assumptions=[INV])
