# streams: Stream / StreamData / StreamId level, Vec-backed container models
# subst: the Vec::push stub has to name Vec's allocator parameter (unstable feature gate, cfg(kani) only)
group("stream", family="vec", shrinks={}, overlays={"src/storage/stream.rs": "ovl_stream.rs"},
      subst=[(r"\A", "#![cfg_attr(kani, feature(allocator_api))]\n", "src/lib.rs")])

K("c15_id_order", "stream", ["C15"], tier="quick", timeout=300,
  desc="StreamId order is lexicographic on (millis, seq); new/millis/seq round trip; min/max are the extremes",
  encodes=["StreamId::new", "StreamId::millis", "StreamId::seq", "StreamId::cmp", "StreamId::partial_cmp"],
  bounds="two full-width symbolic IDs (4 x u64)")
