ENV = "one database, 16 shards; key under test 'a'; watches registered on 'a' and on 'q' (same shard); post-conditions: C08 changed=>reported, the other key never reported"
def E(name, props, desc, encodes, bounds, tier="quick", timeout=900):
    K(name, "eng", props, tier=tier, timeout=timeout, desc=desc + " | " + ENV, encodes=encodes + ["StorageEngine::get_shard", "get_shard_index", "register_watch", "was_modified_since", "ShardWatchTracker::*"], bounds=bounds, stubs=STD_STUBS + ["alloc::fmt::format -> empty String"])

E("c01_getrange_len3", ["C01", "C06"], "GETRANGE on a present 3-byte symbolic string, start/end full-width symbolic isize: reply = Redis getrangeCommand model, value untouched, no panic/overflow", ["StorageEngine::getrange"], "value exactly 3 symbolic bytes; start,end all isize; unwind 5")
E("c01_getrange_len0", ["C01", "C06"], "GETRANGE on a present empty string, start/end full-width symbolic", ["StorageEngine::getrange"], "value empty; start,end all isize; unwind 5")
PRE = {"absent": "key absent", "str": "2 symbolic bytes", "list": "1-element list (wrong type)", "set": "1-member set", "hash": "1-field hash", "nonint": "2-byte non-integer string"}
for op, pres, what, fn in (
    ("append", ("absent", "str", "list"), "APPEND one symbolic byte: reply and post-state = Redis model; WRONGTYPE leaves the dataset unchanged", "append"),
    ("strlen", ("absent", "str", "hash"), "STRLEN: reply = model, read-only, WRONGTYPE on other types", "strlen"),
    ("set", ("absent", "str", "list"), "SET (set_string/set_value): overwrites any existing type with the 2 symbolic bytes, no TTL afterwards", "set_value"),
    ("setnx", ("absent", "str", "set"), "SETNX: sets only when absent; existing key of any type unchanged", "set_string_nx"),
    ("delete", ("absent", "str", "hash"), "DEL: removes a key of any type, clears the expiry index, reply 0/1", "delete"),
    ("exists_type", ("absent", "str", "list", "set", "hash"), "EXISTS and TYPE replies for every pre-state type, read-only", "exists/key_type"),
    ("get", ("absent", "str"), "GET (get_string): stored bytes / nil / WRONGTYPE, read-only", "get/get_string"),
):
    for i, pre in enumerate(pres):
        E("c01_%s_%s" % (op, pre), ["C01", "C08", "C06"], what + "; pre-state: " + PRE[pre], ["StorageEngine::" + fn],
          "pre-state content symbolic (2 bytes), argument bytes symbolic; unwind 5-8", tier="quick" if i < 2 else "thorough")
for pre in ("absent", "str"):
    E("c01_append_empty_" + pre, ["C01", "C08"], "APPEND k \"\" (empty value): a missing key is created as an empty string (reply 0, watchers notified), a string keeps its bytes (reply = length); pre-state: " + PRE[pre],
      ["StorageEngine::append"], "pre-state content symbolic (2 bytes), appended value empty; unwind 5")
INTC = ["Value::integer / Value::as_integer -> abstract round-tripping 8-byte codec (std i64 Display/FromStr on symbolic values is trusted, not encoded)"]
K("c01_incrby_int", "eng", ["C01", "C08", "C06"], tier="quick", timeout=900,
  desc="INCRBY on an integer value: ALL current values x ALL increments (i64 x i64): result = checked_add, overflow refused without effect, watchers notified", encodes=["StorageEngine::incr_by"], bounds="cur, inc full-width symbolic i64; unwind 10", stubs=STD_STUBS + INTC)
for pre in ("absent", "nonint", "list"):
    K("c01_incrby_" + pre, "eng", ["C01", "C08", "C06"], tier="quick" if pre == "absent" else "thorough", timeout=900,
      desc="INCRBY any i64 on pre-state: %s: missing key starts at 0; non-integer / wrong type refused without effect" % PRE[pre], encodes=["StorageEngine::incr_by"], bounds="inc full-width symbolic; unwind 10", stubs=STD_STUBS + INTC)
for nm, what in (("same_shard", "a -> q (same shard)"), ("over_existing", "a -> q where q holds a list"), ("missing", "missing source")):
    K("c01_rename_" + nm, "eng", ["C01", "C02", "C08"], tier="quick", timeout=900,
      desc="RENAME %s: value and TTL deadline travel, source disappears, destination replaced, expiry index follows the value, both keys reported to watchers; missing source = 'no such key' without effect" % what,
      encodes=["StorageEngine::rename"], bounds="value 2 symbolic bytes, deadline fixed; unwind 5", stubs=STD_STUBS)
for nm in ("missing", "present"):
    K("c01_rename_same_name_" + nm, "eng", ["C01", "C02"], tier="quick", timeout=900,
      desc="RENAME k k with k %s: an existing key keeps value and TTL; a missing key is 'no such key'" % nm, encodes=["StorageEngine::rename"], bounds="2 symbolic bytes", stubs=STD_STUBS)
