
K("c01_getrange_len3", "eng", ["C01", "C06"], tier="quick", timeout=600,
  desc="GETRANGE on a present 3-byte symbolic string, start/end full-width symbolic isize: reply = Redis getrangeCommand model, value untouched, no panic/overflow",
  encodes=["StorageEngine::getrange", "StorageEngine::get_shard", "StorageEngine::get_shard_index"],
  bounds="value exactly 3 symbolic bytes; start,end: all 2^64 isize values each; unwind 5",
  stubs=STD_STUBS)
K("c01_getrange_len0", "eng", ["C01", "C06"], tier="quick", timeout=600,
  desc="GETRANGE on a present empty string, start/end full-width symbolic",
  encodes=["StorageEngine::getrange"], bounds="value empty; start,end all isize; unwind 5", stubs=STD_STUBS)
