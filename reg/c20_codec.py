FMT = ["alloc::fmt::format -> empty String (error wording is not part of any property)"]
CUT = ["parse_array/parse_map/parse_set/parse_double -> assume(false): inputs in which a frame begins with * % ~ , are outside this harness"]

for nm, ty, n in (("simple", "+", 6), ("error", "-", 6), ("integer", ":", 6), ("bulk", "$", 7), ("null", "_", 4), ("bool", "#", 5)):
    K("c20_total_" + nm, "proto", ["C20", "C06"], tier="quick" if nm in ("simple", "null", "bool", "bulk") else "thorough", timeout=900,
      desc="parse_frame totality for type byte '%s': arbitrary bytes, every prefix length: frame with 0<consumed<=len, None, or Err; no panic/overflow" % ty,
      encodes=["protocol::parser::parse_frame", "parse_line", "parse_simple_string/parse_error/parse_integer/parse_bulk_string/parse_null/parse_boolean"],
      bounds="type byte concrete '%s', %d further symbolic bytes, symbolic length n<=%d; unwind 8" % (ty, n - 1, n), stubs=FMT)
K("c20_total_badtype", "proto", ["C20", "C06"], tier="quick", timeout=600,
  desc="every byte that is not a RESP type byte yields Err (all ten per-type parsers replaced by assert(false) stubs: none may be reached)",
  encodes=["protocol::parser::parse_frame"], bounds="3 symbolic bytes", stubs=FMT)
for nm in ("array", "map", "set"):
    K("c20_alloc_" + nm, "proto", ["C20", "C06"], tier="quick", timeout=600,
      desc="parse_%s never reserves memory according to a declared length it has not received: header with two arbitrary length bytes and no element bytes; Vec::with_capacity wrapped by an assertion n <= bytes received" % nm,
      encodes=["protocol::parser::parse_%s" % nm, "parse_line"],
      bounds="5-byte input: type byte, 2 symbolic bytes, CRLF; unwind 7",
      stubs=FMT + ["Vec::with_capacity -> asserts n <= bytes received (allocation obligation)",
                   "parse_frame (recursive call) -> asserts it is only called on empty input and returns None (real behaviour on empty input)"])
K("c20_rt_line_types", "proto", ["C20", "C05"], tier="quick", timeout=1200,
  desc="round trip parse(serialize(f)) == (f, len) for SimpleString and Error with <=3 symbolic payload bytes without CR/LF (documented validity predicate); unexpected dispatch arms fail the harness",
  encodes=["serialize_resp_frame", "serialize_to_vec", "parse_frame", "parse_simple_string", "parse_error", "parse_line"],
  bounds="payload length symbolic <=3, bytes symbolic minus CR/LF; unwind 8", stubs=FMT)
K("c20_rt_null_bool", "proto", ["C20", "C05"], tier="quick", timeout=600,
  desc="round trip for Null and both Booleans", encodes=["serialize_resp_frame", "parse_null", "parse_boolean"], bounds="3 frames", stubs=FMT)
K("c20_rt_bulk", "proto", ["C20", "C05", "C11"], tier="quick", timeout=1200,
  desc="round trip for BulkString with 0,1,3 arbitrary payload bytes (incl. CR/LF), nil bulk and nil array: binary payloads can never change framing",
  encodes=["serialize_resp_frame", "parse_bulk_string", "parse_array", "parse_line"],
  bounds="payload lengths concrete {0,1,3}, bytes symbolic; unwind 8", stubs=FMT)
K("c20_rt_integer_lits", "proto", ["C20", "C05"], tier="quick", timeout=900,
  desc="round trip for Integer literals {0,-1,10,-128} (symbolic i64 -> decimal -> i64 is std Display/FromStr and runs CBMC out of memory; outside the claim)",
  encodes=["serialize_resp_frame", "parse_integer"], bounds="4 literals; unwind 8", stubs=FMT)
for nm, ty, n, tier in (("simple", "+", 6, "quick"), ("error", "-", 6, "thorough"), ("null", "_", 6, "quick"), ("bool", "#", 6, "thorough"),
                        ("inline_p", "P", 6, "quick"), ("integer", ":", 6, "thorough"), ("bulk", "$", 7, "thorough")):
    K("c20_prefix_" + nm, "proto", ["C20", "C05"], tier=tier, timeout=5400 if tier == "thorough" else 1800,  # c20_prefix_bulk: 2266 s / 19.5 GB measured mem_gb=28 if tier == "thorough" else None,  # the thorough instances peak close to the default 14 GB limit (went out of memory in some runs)
      desc="prefix lemma of the incremental parser for inputs starting with '%s': for every split point k, parse(prefix) frame => same frame and same remaining input from the whole; Err => Err; need-more => only whitespace consumed. Chunk independence follows by induction over chunks." % ty,
      encodes=["RespParser::parse", "parse_frame", "parse_line", "leaf parsers"],
      bounds="%d bytes, first concrete '%s', rest symbolic; all split points 1..%d enumerated concretely inside the harness; unwind 8" % (n, ty, n - 1),
      stubs=FMT + CUT)
# c20_prefix_blk_len1 (7 bytes): CBMC out of memory at 14 GB - not registered; the 7-byte region is c20_prefix_bulk (thorough)
for nm, tier, what in (("trailer", "quick", "the two split points around the trailer (before it, and between its CR and LF)"), ("all", "thorough", "every split point (950 s)")):
    K("c20_prefix_blk0_" + nm, "proto", ["C20", "C05"], tier=tier, timeout=1800,
      desc="prefix lemma for bulk strings with a CONCRETE declared length ('$0' + 4 arbitrary bytes), " + what + ": parse(prefix) frame => same frame from the whole, Err => Err, need-more otherwise",
      encodes=["RespParser::parse", "parse_frame", "parse_bulk_string", "parse_line"], bounds="6 bytes, the first two concrete, rest symbolic; split points " + ("4 and 5" if nm == "trailer" else "1..5") + "; unwind 8", stubs=FMT + CUT)
for nm, ty in (("inline_p", "P"), ("simple", "+")):
    K("c20_prefix_off_" + nm, "proto", ["C20", "C05"], tier="quick" if nm == "inline_p" else "thorough", timeout=1800 if nm == "inline_p" else 2400, mem_gb=None if nm == "inline_p" else 28,
      desc="prefix lemma with a READ OFFSET: two consumed bytes in front of the input (position = 2, not yet compacted), input starting with '%s', every split point: the parser must look only at buffer[position..]" % ty,
      encodes=["RespParser::parse", "parse_frame", "parse_line"], bounds="2 junk bytes + 6 input bytes (first concrete), all splits; unwind 9", stubs=FMT + CUT)
