def E3(name, desc, encodes, bounds, tier="quick", timeout=1200, props=("C03", "C08", "C06")):
    K(name, "eng", list(props), tier=tier, timeout=timeout, desc=desc, encodes=encodes + ["register_watch", "was_modified_since"], bounds=bounds, stubs=STD_STUBS + ["alloc::fmt::format -> empty String"])
E3("c03_lindex_lset_n3", "LINDEX then LSET with a full-width symbolic index on a 3-element list: element at the Redis-normalised index / nil; LSET replaces exactly that element or is refused without effect; watchers notified iff changed", ["StorageEngine::lindex", "lset"], "3 one-byte symbolic elements; index all isize; unwind 6")
E3("c03_lindex_lset_n1", "same on a 1-element list", ["StorageEngine::lindex", "lset"], "1 element; index all isize", tier="thorough")
E3("c03_lrange_n3", "LRANGE with full-width symbolic start/stop on a 3-element list: exactly the elements of the Redis-normalised range, in order; empty when start > stop or out of range; read-only", ["StorageEngine::lrange"], "3 one-byte symbolic elements; start, stop all isize; unwind 6")
E3("c03_lrange_n2", "same on a 2-element list", ["StorageEngine::lrange"], "2 elements", tier="thorough")
E3("c03_ltrim_n3", "LTRIM with full-width symbolic start/stop on a 3-element list: keeps exactly the range, removes the key when the range is empty; watchers notified", ["StorageEngine::ltrim"], "3 elements; start, stop all isize; unwind 6", tier="thorough")
VEC = ["std::vec::Vec::new -> Vec::with_capacity(8) (capacity is unobservable)", "std::vec::Vec::push -> write without growing; a push beyond the reserved capacity FAILS the harness (nothing cut)", "std::ptr::copy -> exact per-element moves"]
for op, ns in (("lpush", (0,)), ("rpush", (0, 2)), ("lpop", (0, 1, 2)), ("rpop", (1, 2))):
    for n in ns:
        E3("c03_%s_n%d" % (op, n), "%s on a list of %d symbolic elements: order, returned element / new length, key removed when emptied, watchers notified" % (op.upper(), n), ["StorageEngine::" + op], "%d (+2 pushed) one-byte symbolic elements; unwind 6" % n, tier="quick" if (n == ns[-1] and op in ("rpush", "lpop")) else "thorough")
# c03_lrem_n3, c03_set_srem, c03_hash_hdel, c03_lpush_n2: CBMC out of memory at 14 GB (VecDeque::retain/drain closures, set/hash removal shifting) - outside the claim
for _w in ("sadd",):
  E3("c03_set_" + _w, "SISMEMBER, SCARD, then " + _w.upper() + " x (x x for SADD) on a 2-member set with symbolic distinct members: uniqueness, counts, exact post-state; SADD that adds nothing does not notify watchers", ["StorageEngine::sadd", "srem", "sismember", "scard"], "2 + 1 one-byte symbolic members; unwind 6")
E3("c03_srem_last", "SREM of the last member removes the key", ["StorageEngine::srem"], "1 member")
E3("c03_sadd_absent", "SADD x y on a MISSING key (x, y symbolic, possibly equal): the set is created, reply and SCARD count each distinct member once, watchers notified", ["StorageEngine::sadd", "scard"], "2 one-byte symbolic members; unwind 6")
for _w in ("hset",):
  E3("c03_hash_" + _w, "HGET, HEXISTS, HLEN, then " + _w.upper() + " f on a 1-field hash: overwrite vs add, counts, key removed when emptied", ["StorageEngine::hset", "hget", "hdel", "hlen", "hexists"], "1 + 1 symbolic fields; unwind 6")
for nm in ("lpush", "sadd", "hset", "lpop", "lrange", "hdel"):
    E3("c03_wrongtype_" + nm, "%s against a string key: WRONGTYPE, dataset unchanged, watchers not notified" % nm.upper(), ["StorageEngine::" + nm], "2-byte string pre-state", tier="quick" if nm in ("lpush", "hset") else "thorough")
E3("c03_sdiff_missing_middle", "SDIFF a m b with a = {x,y} symbolic, m missing, b = {z} symbolic: a missing key in the middle is an empty set and later keys are still subtracted", ["StorageEngine::sdiff"], "3 symbolic one-byte members over 2 sets + 1 missing key; unwind 6", props=("C03",))
# c03_lrem_minus1 / c03_lrem_plus1: CBMC out of memory even at 45 GB on the unchanged tree (drain(..).rev() + push_front) - LREM stays outside the claim
E3("c03_sinter_two", "SINTER a b with a = {x,y}, b = {z} symbolic (z may equal x or y): exactly the common members", ["StorageEngine::sinter"], "3 symbolic one-byte members; unwind 6", props=("C03",), tier="thorough")
E3("c03_sinter_missing", "SINTER a m b with m missing and IN THE SAME SHARD as a: empty - and the call returns (a shard lock still held when the next key of the same shard is locked is a self-deadlock: the contended-lock path of RwLock is reported as a failed check)", ["StorageEngine::sinter"], "as above", props=("C03", "C06"))
E3("c03_sunion_missing", "SUNION a m b with m missing: every member of every set once", ["StorageEngine::sunion"], "as above", props=("C03",), tier="thorough")
