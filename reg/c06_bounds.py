M("c06_handler_index_bounds", ["C06", "C05"], "bounds", tier="quick",
  desc="every slice/Vec index bounds check (MIR assert 'index out of bounds') in the Server command handlers whose index and length are tracked integer terms: no execution with the check failing exists (e.g. parts[i + 1] after an `i + 1 >= parts.len()` test in the SET option loop) - a failing check would panic the single command thread",
  assumptions=["loop-modified locals are arbitrary at loop heads; lengths of slices are arbitrary non-negative integers; checks whose index or length is not a tracked term are counted as undecided and reported in the evidence, never as violations"],
  fns=[r"server\.rs.*>::handle_\w+$"], skip=[r"closure"])
M("c06_command_module_index_bounds", ["C06"], "bounds", tier="quick",
  desc="same obligation for the public command handlers in storage/commands/*.rs (strings, lists, sets, hashes, streams, scan, consumer groups, transactions ...)",
  assumptions=["as c06_handler_index_bounds"],
  fns=[r"^handle_\w+$", r"commands::\w+::handle_\w+$"], skip=[r"closure"])
