M("c06_handler_index_bounds", ["C06", "C05"], "bounds", tier="quick",
  desc="every slice/Vec index bounds check (MIR assert 'index out of bounds') in the Server command handlers whose index and length are tracked integer terms: no execution with the check failing exists (e.g. parts[i + 1] after an `i + 1 >= parts.len()` test in the SET option loop) - a failing check would panic the single command thread",
  assumptions=["loop-modified locals are arbitrary at loop heads; lengths of slices are arbitrary non-negative integers; checks whose index or length is not a tracked term are counted as undecided and reported in the evidence, never as violations"],
  fns=[r"server\.rs.*>::handle_\w+$"], skip=[r"closure"], min_len={"parts": 1})
M("c06_command_module_index_bounds", ["C06"], "bounds", tier="quick",
  desc="same obligation for the public command handlers in storage/commands/*.rs (strings, lists, sets, hashes, streams, scan, consumer groups, transactions ...)",
  assumptions=["as c06_handler_index_bounds", "precondition of every handler: the request slice `parts` is non-empty (the dispatch has read parts[0])"],
  fns=[r"^handle_\w+$", r"commands::\w+::handle_\w+$"], skip=[r"closure"], min_len={"parts": 1})
M("c06_handler_arith_overflow", ["C06"], "bounds", tier="quick", overflow=True,
  desc="arithmetic overflow checks (MIR asserts 'which would overflow') in the command handlers whose operands are modelled terms that are not loop-carried: no execution on which the check fails exists (numbers parsed from the request are arbitrary values of their type: DECRBY i64::MIN, EVAL with numkeys = usize::MAX ...)",
  assumptions=["results of len()/count() calls and slice lengths are <= isize::MAX; loop-carried accumulators, multiplications and flags of arithmetic the encoder does not model are undecided (reported in the evidence), never violations",
               "Server::handle_ttl is skipped: its `secs + 1` on Duration::as_secs() of a remaining TTL cannot overflow in reality but the call result is an arbitrary u64 in this encoding",
               "handle_eval_with_db is skipped: its only decided check is `pos + \"REDIS_CALL_ABORT:\".len()` with pos returned by str::find (bounded by the string length in reality, arbitrary here); its client-controlled arithmetic lives in process_keys_and_args, which IS included"],
  fns=[r"server\.rs.*>::handle_\w+$", r"^handle_\w+$", r"commands::\w+::handle_\w+$", r"process_keys_and_args$"], skip=[r"closure", r">::handle_ttl$", r"^handle_eval_with_db$"], msg=r"which would overflow")
M("c06_engine_arith_overflow", ["C06", "C03"], "bounds", tier="quick", overflow=True, inputs_only=True,
  desc="arithmetic overflow checks (add / subtract / negate / multiply-by-constant) in the storage engine and the unified command executor whose operands are built from INPUTS - integer parameters, fields of by-value command parameters, results of str::parse - plus lengths of existing collections and constants: no execution on which the check fails exists (LREM/SRANDMEMBER/DECRBY counts at iN::MIN, SETRANGE offset + len, HINCRBY current + increment, ...)",
  assumptions=["operands that depend on fields of existing state, results of other calls, operators the encoder does not model or loop-carried values are undecided (counted in the evidence), never violations",
               "lengths are <= isize::MAX; x.len() of an object not borrowed mutably in between returns the same number; named integer consts are evaluated from their MIR bodies"],
  fns=[r"engine\.rs.*>::\w+$", r"executor\.rs.*>::\w+$"], skip=[r"closure"], msg=r"which would overflow")
M("c06_reservation_bounded", ["C06", "C10"], "alloc_bound", tier="quick", limit=2**40, len_max=2**32, input_calls=[r"::read_length$", r"::read_u32$", r"::read_u64$"],
  desc="no reservation sized by an unchecked request number: at every Vec/VecDeque/HashMap with_capacity / reserve / resize / vec![x; n] call in the crate whose size is built from inputs (integer parameters, fields of by-value command parameters, str::parse results), lengths of existing collections and constants, the size cannot exceed 2^40 when every existing collection holds at most 2^32 elements (SETRANGE/SETBIT offsets, SRANDMEMBER -count, declared RESP/RDB lengths ...); length fields read from a dump file (results of RdbReader::read_length / read_u32 / read_u64) count as inputs",
  assumptions=["sizes that depend on fields of existing state, unmodelled calls/operators or loop-carried values are undecided, never violations",
               "constructors (::new, ::with_config, ::with_capacity: sizes from the configuration), the replication client (lengths announced by the master, not a client) and test modules are skipped"],
  fns=[r"."], skip=[r"closure", r"^const ", r"tests::", r"config::", r"main", r"::new$", r"::with_config$", r"::with_capacity$", r"replication"])
M("c06_float_timeout_guarded", ["C06", "C13"], "float_guard", tier="quick", limit=1e11,
  desc="every Duration::from_secs_f64(x) (BLPOP/BRPOP timeouts; panics on NaN, infinities, negative and too large values) is reached only with a finite x in [0, 1e11] seconds: x is an arbitrary IEEE-754 binary64 value (what str::parse::<f64> can return: 'inf', 'nan', '1e30' ...), comparisons follow IEEE semantics (every ordered comparison with NaN is false)",
  assumptions=["floating-point arithmetic other than comparisons is not modelled (results arbitrary); the bound 1e11 s keeps the later Instant::now() + timeout far from Instant's range"],
  skip=[r"tests::"])
