"""Registry of everything the checks run: Kani harness groups + harnesses, MIR queries.
Fragments live in reg/*.py; each fragment calls group(), K() and M()."""
import os, glob, importlib.util
from vlib.kanirun import Harness as H

STD_STUBS = ["std::time::Instant::now -> fixed/manual/symbolic clock (verif_common)",
             "std::panic::catch_unwind -> Ok(f()) (exact under panic=abort)"]

GROUPS = {}
HARNESSES = []
MIR_QUERIES = []


def group(name, **spec):
    assert name not in GROUPS, name
    GROUPS[name] = spec


def K(*a, **kw):
    h = H(*a, **kw)
    assert h.group in GROUPS, h.group
    if h.fs_array is None:
        h.fs_array = GROUPS[h.group].get("fs_array")
    if h.fs_array:
        h.assumptions.append("CBMC --max-field-sensitivity-array-size %d (precision of constant propagation only; does not change semantics)" % h.fs_array)
    assert all(x.name != h.name for x in HARNESSES), "duplicate harness " + h.name
    # --harness is a substring filter: no harness name may contain another one
    HARNESSES.append(h)


class MirQuery:
    def __init__(self, name, props, kind, tier="quick", desc="", expect="hold", assumptions=(), **params):
        self.name, self.props, self.kind, self.tier, self.desc = name, props, kind, tier, desc
        self.expect = expect
        self.assumptions = list(assumptions)
        self.params = params


def M(*a, **kw):
    q = MirQuery(*a, **kw)
    assert all(x.name != q.name for x in MIR_QUERIES), q.name
    MIR_QUERIES.append(q)


_here = os.path.dirname(os.path.abspath(__file__))
for _p in sorted(glob.glob(os.path.join(_here, "reg", "*.py"))):
    _spec = importlib.util.spec_from_file_location("reg_" + os.path.basename(_p)[:-3], _p)
    _m = importlib.util.module_from_spec(_spec)
    _m.group, _m.K, _m.M, _m.STD_STUBS = group, K, M, STD_STUBS
    try:
        _spec.loader.exec_module(_m)
    except Exception as _ex:  # a broken fragment must not take the other properties down
        import sys as _sys
        _sys.stderr.write("registry: fragment %s failed to load: %r\n" % (_p, _ex))

for _x in HARNESSES + MIR_QUERIES:
    _x.quick_also = set()
try:
    _qa = importlib.util.spec_from_file_location("quick_also", os.path.join(_here, "quick_also.py"))
    _qam = importlib.util.module_from_spec(_qa)
    _qa.loader.exec_module(_qam)
    for _prop, _lst in _qam.QUICK_ALSO.items():
        for _n in _lst:
            _hit = [x for x in HARNESSES + MIR_QUERIES if x.name == _n]
            assert _hit, "quick_also: unknown check " + _n
            if _prop not in _hit[0].props:
                _hit[0].props.append(_prop)
            _hit[0].quick_also.add(_prop)
except FileNotFoundError:
    pass
# Native replay (real clock, real RNG) is only meaningful for harnesses whose outcome does not
# depend on an environment stub; for the others the solver's counterexample is reported with the
# concrete-playback test attached and `reproduced_natively: null`.
import re as _re
_NO_NATIVE = _re.compile(r"^(c01_incrby|c02_|c06_expire|c06_setex|c08_flushdb|c01_rename|c09_ttl|c09_e2e|c15_auto_id|c15_cached|c15_add|c13_|c16_|c04_|c19_|c10_wfault|c09_rec|c10_total|c10_alloc|c09_list_marker)")
for _h in HARNESSES:
    if _NO_NATIVE.search(_h.name):
        _h.native_replay = False
_names = [h.name for h in HARNESSES]
for _a in _names:
    for _b in _names:
        assert _a == _b or _a not in _b, "harness name %s is a substring of %s (ambiguous --harness filter)" % (_a, _b)
