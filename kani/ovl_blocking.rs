// Overlay for src/network/blocking.rs (child module => sees private items).  Property C13.
// One real operation from every well-formed registry of the bounded shape:
//   <= 3 registered clients, 2 keys ("a", "b"), every client registered under {a}, {b} or {a,b}.
//   The SHAPE (which client waits on which keys) is concrete and enumerated in straight-line code
//   inside each harness (a symbolic shape ran CBMC out of memory: 69 M clauses for 2 clients);
//   Symbolic: connection ids (pop/register: three pairwise distinct full-width u64; unregister/
//   timeout scan: the constants 11/22/33 -- with symbolic ids `retain`/removal patterns become
//   symbolic, Vec pushes happen under symbolic guards and symex does not finish), BLPop/BRPop, deadlines
//   (free for pop/register/unregister; for the timeout scan the expiry PATTERN is concrete per
//   instance: no deadline / already passed / == now / not yet, and one-client harnesses cover
//   a full-width symbolic deadline and `now`).
//   The registry is built directly through the std container API (no ferrous function involved)
//   so that it satisfies the invariants: queue(k) = the clients registered under k in
//   registration order; a key is in the map and in `blocked_keys` iff its queue is non-empty.
// After the operation the complete registry is compared with the model:
//   (a) FIFO per key  (b) blocked_keys == keys with a non-empty queue == has_blocked_clients
//   (c) a client that was popped / expired / unregistered appears under NO key
//   (d) get_expired_clients(now) == the clients with deadline <= now, each exactly once.
#![allow(dead_code, unused)]
use super::*;
use crate::verif_common::*;

const NC: usize = 3;
const KA: &[u8] = b"a";
const KB: &[u8] = b"b";
const KC: &[u8] = b"c";

#[derive(Clone, Copy)]
struct Pre {
    ids: [u64; NC],
    /// bit 0: registered under "a", bit 1: under "b"; 0 = client absent
    ks: [u8; NC],
    has_dl: [bool; NC],
    dl_s: [i64; NC],
    dl_ns: [u32; NC],
    rpop: [bool; NC],
}

/// pre-state model of the concrete shape `ks`; everything else symbolic
fn any_pre(ks: [u8; NC]) -> Pre {
    let p = Pre {
        ids: kani::any(),
        ks,
        has_dl: kani::any(),
        dl_s: kani::any(),
        dl_ns: kani::any(),
        rpop: kani::any(),
    };
    let mut i = 0;
    while i < NC {
        kani::assume(p.dl_ns[i] < 1_000_000_000);
        let mut j = 0;
        while j < i {
            if p.ks[i] != 0 && p.ks[j] != 0 {
                kani::assume(p.ids[i] != p.ids[j]);
            }
            j += 1;
        }
        i += 1;
    }
    p
}

/// like any_pre, but with the concrete ids 11, 22, 33.  unregister_client and
/// get_expired_clients compare ids / push into Vecs depending on the outcome; with symbolic ids
/// (free, or symbolic base + offsets: CBMC propagates constants only) the removal pattern is
/// symbolic, Vec pushes happen under symbolic guards and symex does not finish.  Both functions
/// use ids only in `==`/`!=`, so three distinct constants stand for any three distinct ids.
fn any_pre_base(ks: [u8; NC]) -> Pre {
    let mut p = any_pre(ks);
    p.ids = [11, 22, 33];
    p
}

// Shape enumeration in straight-line code (no loop: every instance is constant-folded).
// A shape is the sequence of key sets (1 = {a}, 2 = {b}, 3 = {a,b}) in registration order.
/// all 13 shapes with <= 2 clients
macro_rules! shapes_le2 {
    ($f:expr) => {{
        let mut f = $f;
        f([0, 0, 0]);
        f([1, 0, 0]);
        f([2, 0, 0]);
        f([3, 0, 0]);
        f([1, 1, 0]);
        f([1, 2, 0]);
        f([1, 3, 0]);
        f([2, 1, 0]);
        f([2, 2, 0]);
        f([2, 3, 0]);
        f([3, 1, 0]);
        f([3, 2, 0]);
        f([3, 3, 0]);
    }};
}
/// 4 selected shapes with 3 clients (quick tier): one full queue, everybody on both keys, mixed
macro_rules! shapes_3sel {
    ($f:expr) => {{
        let mut f = $f;
        f([1, 1, 1]);
        f([3, 3, 3]);
        f([1, 3, 2]);
        f([2, 1, 3]);
    }};
}
/// 4 selected small shapes (for the symmetric key orders)
macro_rules! shapes_sel4 {
    ($f:expr) => {{
        let mut f = $f;
        f([0, 0, 0]);
        f([1, 0, 0]);
        f([3, 0, 0]);
        f([1, 2, 0]);
    }};
}
/// the 9 shapes with 3 clients whose first client has key set $x
macro_rules! shapes_3 {
    ($x:expr, $f:expr) => {{
        let mut f = $f;
        f([$x, 1, 1]);
        f([$x, 1, 2]);
        f([$x, 1, 3]);
        f([$x, 2, 1]);
        f([$x, 2, 2]);
        f([$x, 2, 3]);
        f([$x, 3, 1]);
        f([$x, 3, 2]);
        f([$x, 3, 3]);
    }};
}

fn mk_client(p: &Pre, i: usize) -> BlockedClient {
    BlockedClient {
        conn_id: p.ids[i],
        blocked_at: mk_instant(T0_S, 0),
        deadline: if p.has_dl[i] { Some(mk_instant(p.dl_s[i], p.dl_ns[i])) } else { None },
        op_type: if p.rpop[i] { BlockingOp::BRPop } else { BlockingOp::BLPop },
    }
}

/// Build the registry described by `p` directly (std container API only).
fn build(p: &Pre) -> BlockingRegistry {
    // all allocations unconditional; symbolic conditions only decide where values are moved
    let ka = KA.to_vec();
    let kb = KB.to_vec();
    let ka2 = KA.to_vec();
    let kb2 = KB.to_vec();
    let mut qa: VecDeque<BlockedClient> = VecDeque::new();
    let mut qb: VecDeque<BlockedClient> = VecDeque::new();
    let mut i = 0;
    while i < NC {
        if p.ks[i] & 1 != 0 {
            qa.push_back(mk_client(p, i));
        }
        if p.ks[i] & 2 != 0 {
            qb.push_back(mk_client(p, i));
        }
        i += 1;
    }
    // (field types are whatever the parent module uses: std containers natively, models under Kani)
    let mut reg = BlockingRegistry { blocked_on_key: HashMap::new(), blocked_keys: Default::default() };
    if !qa.is_empty() {
        reg.blocked_on_key.insert(ka, qa);
        reg.blocked_keys.insert(ka2);
    } else {
        std::mem::forget((ka, ka2, qa));
    }
    if !qb.is_empty() {
        reg.blocked_on_key.insert(kb, qb);
        reg.blocked_keys.insert(kb2);
    } else {
        std::mem::forget((kb, kb2, qb));
    }
    reg
}

/// (a)+(b)+(c) for one key: the queue of `key` is exactly the model's clients registered under
/// `bit` and not `gone`, in registration order, optionally followed by `extra`.
fn check_key(reg: &BlockingRegistry, key: &[u8], bit: u8, p: &Pre, gone: &[bool; NC], extra: Option<u64>) {
    let mut exp = [0u64; NC + 1];
    let mut n = 0;
    let mut i = 0;
    while i < NC {
        if p.ks[i] & bit != 0 && !gone[i] {
            exp[n] = p.ids[i];
            n += 1;
        }
        i += 1;
    }
    if let Some(x) = extra {
        exp[n] = x;
        n += 1;
    }
    match reg.blocked_on_key.get(key) {
        None => {
            assert!(n == 0, "(a) a key with waiting clients lost its queue");
            assert!(!reg.blocked_keys.contains(key), "(b) blocked_keys has a key that has no queue");
            assert!(!reg.has_blocked_clients(key), "(b) has_blocked_clients true for a key without waiters");
        }
        Some(q) => {
            // (c) first: a client that is gone must not be in the queue any more
            let mut i = 0;
            while i < NC {
                if gone[i] && p.ks[i] != 0 {
                    let mut j = 0;
                    while j < NC + 1 {
                        if let Some(c) = q.get(j) {
                            assert!(c.conn_id != p.ids[i], "(c) leftover registration: a popped/expired/unregistered client is still queued under a key");
                        }
                        j += 1;
                    }
                }
                i += 1;
            }
            assert!(q.len() == n, "(a) queue length differs from the model");
            assert!(n > 0, "(b) empty queue left in blocked_on_key");
            let mut j = 0;
            while j < NC + 1 {
                if j < n {
                    match q.get(j) {
                        Some(c) => assert!(c.conn_id == exp[j], "(a) FIFO order per key violated"),
                        None => assert!(false, "(a) queue shorter than its len()"),
                    }
                }
                j += 1;
            }
            assert!(reg.blocked_keys.contains(key), "(b) key with waiters missing from blocked_keys");
            assert!(reg.has_blocked_clients(key), "(b) has_blocked_clients false for a key with waiters");
        }
    }
}

fn check_all(reg: &BlockingRegistry, p: &Pre, gone: &[bool; NC], extra_a: Option<u64>, extra_b: Option<u64>) {
    check_key(reg, KA, 1, p, gone, extra_a);
    check_key(reg, KB, 2, p, gone, extra_b);
    let mut nk = 0;
    let mut i = 0;
    let mut has_a = extra_a.is_some();
    let mut has_b = extra_b.is_some();
    while i < NC {
        if !gone[i] {
            has_a |= p.ks[i] & 1 != 0;
            has_b |= p.ks[i] & 2 != 0;
        }
        i += 1;
    }
    let nk = has_a as usize + has_b as usize;
    assert!(reg.blocked_on_key.len() == nk, "(b) blocked_on_key has a key outside the model");
    assert!(reg.blocked_keys.len() == nk, "(b) blocked_keys has a key outside the model");
    assert!(!reg.has_blocked_clients(KC), "(b) has_blocked_clients true for a key nobody waits on");
}

const NONE_GONE: [bool; NC] = [false; NC];

fn n_clients(ks: &[u8; NC]) -> usize {
    (ks[0] != 0) as usize + (ks[1] != 0) as usize + (ks[2] != 0) as usize
}

// ---------------------------------------------------------------- pre-state sanity
/// The directly built registries satisfy the invariants (sanity of the builder and of check_all).
fn prestate_case(ks: [u8; NC]) {
    let p = any_pre(ks);
    let reg = build(&p);
    check_all(&reg, &p, &NONE_GONE, None, None);
    std::mem::forget(reg);
}

// ---------------------------------------------------------------- register_blocked_client
/// pre-state: <= 2 clients; the new client (third) registers under the key list [first, second]
fn register_case(ks: [u8; NC], first: u8, second: u8) -> u32 {
    let p = any_pre(ks);
    let mut reg = build(&p);
    let id: u64 = kani::any();
    kani::assume(p.ks[0] == 0 || id != p.ids[0]);
    kani::assume(p.ks[1] == 0 || id != p.ids[1]);
    let has_dl: bool = kani::any();
    let s: i64 = kani::any();
    let ns: u32 = kani::any();
    kani::assume(ns < 1_000_000_000);
    let c = BlockedClient {
        conn_id: id,
        blocked_at: mk_instant(T0_S, 0),
        deadline: if has_dl { Some(mk_instant(s, ns)) } else { None },
        op_type: if kani::any() { BlockingOp::BRPop } else { BlockingOp::BLPop },
    };
    let k1: &[u8] = if first == 1 { KA } else { KB };
    let mut keys: Vec<(DatabaseIndex, Vec<u8>)> = Vec::new();
    keys.push((0, k1.to_vec()));
    if second != 0 {
        let k2: &[u8] = if second == 1 { KA } else { KB };
        keys.push((0, k2.to_vec()));
    }
    reg.register_blocked_client(c, &keys);
    let on_a = first == 1 || second == 1;
    let on_b = first == 2 || second == 2;
    check_all(&reg, &p, &NONE_GONE, if on_a { Some(id) } else { None }, if on_b { Some(id) } else { None });
    // the stored record is intact (deadline / op type are what the timeout scan and the wake-up use)
    let k = if on_a { KA } else { KB };
    match reg.blocked_on_key.get(k) {
        Some(q) => match q.back() {
            Some(last) => {
                assert!(last.conn_id == id, "registered client is the last of its queue");
                match (last.deadline, has_dl) {
                    (Some(d), true) => assert!(d == mk_instant(s, ns), "deadline stored unchanged"),
                    (None, false) => {}
                    _ => assert!(false, "deadline presence changed by registration"),
                }
            }
            None => assert!(false, "queue of the registered key is empty"),
        },
        None => assert!(false, "registered key has no queue"),
    }
    std::mem::forget(reg);
    std::mem::forget(keys);
    (ks[0] == 3 && ks[1] == 1) as u32 | ((ks[0] == 0) as u32) << 1
}
fn register_covers(w: u32) {
    kani::cover!(w & 1 != 0, "registration behind two waiting clients");
    kani::cover!(w & 2 != 0, "registration into an empty registry");
}


// ---------------------------------------------------------------- pop_first_waiter
/// `region`: predicate of the leftover-registration defect = the client at the head of the popped
/// key's queue is registered under both keys.  Instances outside the requested region are skipped
/// (shape and key are concrete, so this is decided before anything runs).
fn pop_case(ks: [u8; NC], sel: u8, region: bool) -> u32 {
    let (key, bit): (&[u8], u8) = if sel == 0 { (KA, 1) } else if sel == 1 { (KB, 2) } else { (KC, 0) };
    let mut head: Option<usize> = None;
    let mut i = NC;
    while i > 0 {
        i -= 1;
        if ks[i] & bit != 0 {
            head = Some(i);
        }
    }
    let multi = match head {
        Some(h) => ks[h] == 3,
        None => false,
    };
    if multi != region {
        return 0;
    }
    let p = any_pre(ks);
    let mut reg = build(&p);
    let got = reg.pop_first_waiter(key);
    let mut gone = NONE_GONE;
    match (&got, head) {
        (None, None) => {}
        (Some(c), Some(h)) => {
            assert!(c.conn_id == p.ids[h], "(a) pop_first_waiter must return the client that blocked first on the key");
            assert!(matches!(c.op_type, BlockingOp::BRPop) == p.rpop[h], "popped record carries the registered op type");
            gone[h] = true;
        }
        (Some(_), None) => assert!(false, "pop_first_waiter invented a waiter"),
        (None, Some(_)) => assert!(false, "pop_first_waiter returned None although a client waits on the key"),
    }
    check_all(&reg, &p, &gone, None, None);
    let w = (got.is_some() && region) as u32
        | ((got.is_some() && ks[0] == 1 && ks[1] == 1 && sel == 0) as u32) << 1
        | ((got.is_some() && ks[0] == 1 && ks[1] == 2 && sel == 1) as u32) << 2
        | ((got.is_none() && sel < 2) as u32) << 3
        | ((got.is_none() && sel == 2 && ks[0] == 3) as u32) << 4;
    std::mem::forget(got);
    std::mem::forget(reg);
    w
}
// (separate functions: a cover in a branch that is dead in one harness counts as unsatisfied there)
fn pop_covers_kf(w: u32) {
    kani::cover!(w & 1 != 0, "popped a client that waits on two keys");
}
fn pop_covers_rest(w: u32) {
    kani::cover!(w & 2 != 0, "queue keeps its second waiter after the pop");
    kani::cover!(w & 4 != 0, "popped a single-key waiter through the second key");
    kani::cover!(w & 8 != 0, "nobody waiting on the key");
    kani::cover!(w & 16 != 0, "key nobody ever waited on");
}


// ---------------------------------------------------------------- unregister_client
/// `k` < 3: unregister client k of the shape; k == 3: an id nobody registered
fn unregister_case(ks: [u8; NC], k: usize) -> u32 {
    if k < NC && ks[k] == 0 {
        return 0;
    }
    let p = any_pre_base(ks);
    let mut reg = build(&p);
    let id: u64 = if k < NC { p.ids[k] } else { 44 };
    reg.unregister_client(id);
    let mut gone = NONE_GONE;
    if k < NC {
        gone[k] = true;
    }
    check_all(&reg, &p, &gone, None, None);
    std::mem::forget(reg);
    (k == 1 && ks[0] == 3 && ks[1] == 3) as u32 | ((k == 3 && ks[0] != 0) as u32) << 1 | ((k == 0 && ks[1] == 0) as u32) << 2
}

// ---------------------------------------------------------------- get_expired_clients
/// Concrete expiry pattern per client: 0 = no deadline (BLPOP .. 0), 1 = deadline passed
/// (earlier second, larger nanosecond part), 2 = deadline == now, 3 = not yet (later second,
/// smaller nanosecond part).  `now` = (T0_S, 500 ns).
/// `region`: predicate of the duplicate-report defect = a client whose deadline has passed waits
/// on both keys; instances outside the requested region are skipped.
fn expired_case(ks: [u8; NC], pat: [u8; NC], region: bool) -> u32 {
    let mut p = any_pre_base(ks);
    let mut gone = NONE_GONE;
    let mut n_exp = 0;
    let mut multi_expired = false;
    let mut i = 0;
    while i < NC {
        p.has_dl[i] = pat[i] != 0;
        if pat[i] == 1 {
            p.dl_s[i] = T0_S - 1;
            p.dl_ns[i] = 999_999_999;
        } else if pat[i] == 2 {
            p.dl_s[i] = T0_S;
            p.dl_ns[i] = 500;
        } else {
            p.dl_s[i] = T0_S + 1;
            p.dl_ns[i] = 0;
        }
        if ks[i] != 0 && (pat[i] == 1 || pat[i] == 2) {
            gone[i] = true;
            n_exp += 1;
            if ks[i] == 3 {
                multi_expired = true;
            }
        }
        i += 1;
    }
    if multi_expired != region {
        return 0;
    }
    let mut reg = build(&p);
    let got = reg.get_expired_clients(mk_instant(T0_S, 500));
    check_expired_report(&p, &gone, &got, n_exp, region);
    // (a)(b)(c) on the state left behind
    check_all(&reg, &p, &gone, None, None);
    std::mem::forget(got);
    std::mem::forget(reg);
    region as u32 | ((n_exp >= 2) as u32) << 1 | ((n_exp == 0 && ks[0] != 0 && pat[0] == 3) as u32) << 2 | ((n_exp == 1 && gone[1] && ks[0] == 1 && ks[1] == 1) as u32) << 3 | ((gone[0] && pat[0] == 2) as u32) << 4
}

/// (d) the report is exactly the set of expired clients, each once
fn check_expired_report(p: &Pre, gone: &[bool; NC], got: &Vec<u64>, n_exp: usize, region: bool) {
    assert!(got.len() <= 2 * NC, "(d) more reports than registrations");
    let mut i = 0;
    while i < NC {
        if p.ks[i] != 0 {
            let mut cnt = 0;
            let mut j = 0;
            while j < 2 * NC {
                if j < got.len() && got[j] == p.ids[i] {
                    cnt += 1;
                }
                j += 1;
            }
            if gone[i] {
                assert!(cnt >= 1, "(d) a client whose deadline has passed is not reported");
                assert!(cnt <= 1, "(d) a timed-out client is reported more than once");
            } else if p.has_dl[i] {
                assert!(cnt == 0, "(d) a client is reported before its deadline");
            } else {
                assert!(cnt == 0, "(d) a client without deadline (timeout 0) is reported as timed out");
            }
        }
        i += 1;
    }
    let mut j = 0;
    while j < 2 * NC {
        if j < got.len() {
            let x = got[j];
            assert!((p.ks[0] != 0 && x == p.ids[0]) || (p.ks[1] != 0 && x == p.ids[1]) || (p.ks[2] != 0 && x == p.ids[2]),
                "(d) an id that is not registered is reported");
        }
        j += 1;
    }
    if !region {
        assert!(got.len() == n_exp, "(d) number of reports == number of expired clients");
    }
}

/// One registered client, deadline and `now` full-width symbolic: reported iff deadline <= now.
/// `both_keys` = the client waits on both keys (region of the duplicate-report defect when it expires).
fn expired_clock_case(both_keys: bool, region: bool) -> u32 {
    let ks = [if both_keys { 3 } else { 1 }, 0, 0];
    let p = any_pre(ks);
    let now_s: i64 = kani::any();
    let now_ns: u32 = kani::any();
    kani::assume(now_ns < 1_000_000_000);
    let expired = p.has_dl[0] && (p.dl_s[0] < now_s || (p.dl_s[0] == now_s && p.dl_ns[0] <= now_ns));
    let mut w = 0;
    if (expired && both_keys) == region {
        let mut reg = build(&p);
        let got = reg.get_expired_clients(mk_instant(now_s, now_ns));
        let mut gone = NONE_GONE;
        gone[0] = expired;
        check_expired_report(&p, &gone, &got, expired as usize, region);
        check_all(&reg, &p, &gone, None, None);
        w = (expired as u32) | ((!expired && p.has_dl[0]) as u32) << 1 | ((!p.has_dl[0]) as u32) << 2
            | ((expired && p.dl_s[0] == now_s && p.dl_ns[0] == now_ns) as u32) << 3
            | ((!expired && p.has_dl[0] && p.dl_s[0] == now_s) as u32) << 4;
        std::mem::forget(got);
        std::mem::forget(reg);
    }
    w
}
fn expired_covers_kf(w: u32) {
    kani::cover!(w & 1 != 0, "an expired client waits on two keys");
}
fn expired_covers_rest(w: u32) {
    kani::cover!(w & 2 != 0, "two clients expire at once");
    kani::cover!(w & 4 != 0, "nobody expires although deadlines exist");
    kani::cover!(w & 8 != 0, "a client behind the head of a queue expires alone");
    kani::cover!(w & 16 != 0, "deadline == now counts as expired");
}



// =================================================================== harnesses
// ---- quick tier
/// registration into an empty registry and next to a client waiting on the other key
#[kani::proof]
#[kani::unwind(6)]
fn c13_register_small() {
    let mut w = 0u32;
    w |= register_case([0, 0, 0], 1, 0);
    w |= register_case([0, 0, 0], 1, 2);
    w |= register_case([2, 0, 0], 1, 0);
    kani::cover!(w & 2 != 0, "registration into an empty registry");
}
/// registration behind a client that already waits on the same key (FIFO position)
#[kani::proof]
#[kani::unwind(6)]
fn c13_register_behind() {
    let w = register_case([1, 0, 0], 1, 0);
    kani::cover!(w == 0, "reached");
}
/// BLPOP a a: Redis registers a client once per distinct key (blockForKeys skips a key that is
/// already in the client's key set); the model therefore expects ONE entry under the key.
// NOT REGISTERED (does not finish within the budget, see reg/*.py): attributes removed
// #[kani::proof]
// #[kani::unwind(6)]
fn c13_register_dupkey_kf() {
    let w = register_case([0, 0, 0], 1, 1);
    kani::cover!(w & 2 != 0, "registration into an empty registry");
}
#[kani::proof]
#[kani::unwind(6)]
fn c13_pop_rest_key_a() {
    let mut w = 0u32;
    shapes_le2!(|ks| w |= pop_case(ks, 0, false));
    shapes_3sel!(|ks| w |= pop_case(ks, 0, false));
    kani::cover!(w & 2 != 0, "queue keeps its second waiter after the pop");
    kani::cover!(w & 8 != 0, "nobody waiting on the key");
}
#[kani::proof]
#[kani::unwind(6)]
fn c13_pop_rest_key_b() {
    let mut w = 0u32;
    shapes_le2!(|ks| w |= pop_case(ks, 1, false));
    shapes_3sel!(|ks| w |= pop_case(ks, 1, false));
    w |= pop_case([3, 1, 0], 2, false);
    kani::cover!(w & 4 != 0, "popped a single-key waiter through the second key");
    kani::cover!(w & 8 != 0, "nobody waiting on the key");
    kani::cover!(w & 16 != 0, "key nobody ever waited on");
}
#[kani::proof]
#[kani::unwind(6)]
fn c13_pop_multikey_kf() {
    let mut w = 0u32;
    shapes_le2!(|ks| w |= pop_case(ks, 0, true) | pop_case(ks, 1, true));
    shapes_3sel!(|ks| w |= pop_case(ks, 0, true) | pop_case(ks, 1, true));
    pop_covers_kf(w);
}
/// every shape with <= 2 clients, unregister the first client / an unknown id
// NOT REGISTERED (does not finish within the budget, see reg/*.py): attributes removed
// #[kani::proof]
// // NOT REGISTERED (does not finish within the budget, see reg/*.py): attributes removed
// #[kani::unwind(6)]
fn c13_unregister_first() {
    let mut w = 0u32;
    shapes_le2!(|ks| w |= unregister_case(ks, 0));
    w |= unregister_case([0, 0, 0], 3);
    w |= unregister_case([3, 1, 0], 3);
    kani::cover!(w & 2 != 0, "unknown connection id");
    kani::cover!(w & 4 != 0, "last client removed, registry becomes empty");
}
/// every shape with 2 clients, unregister the second client
// NOT REGISTERED (does not finish within the budget, see reg/*.py): attributes removed
// #[kani::proof]
// // NOT REGISTERED (does not finish within the budget, see reg/*.py): attributes removed
// #[kani::unwind(6)]
fn c13_unregister_second() {
    let mut w = 0u32;
    shapes_le2!(|ks| w |= unregister_case(ks, 1));
    kani::cover!(w & 1 != 0, "unregistered the second client of both queues");
}
/// timeout scan, one client: every expiry pattern; deadline and now full-width symbolic
// NOT REGISTERED (does not finish within the budget, see reg/*.py): attributes removed
// #[kani::proof]
// // NOT REGISTERED (does not finish within the budget, see reg/*.py): attributes removed
// #[kani::unwind(8)]
fn c13_expired_one_client() {
    let mut w = 0u32;
    w |= expired_case([1, 0, 0], [0, 0, 0], false) | expired_case([1, 0, 0], [1, 0, 0], false) | expired_case([1, 0, 0], [2, 0, 0], false) | expired_case([1, 0, 0], [3, 0, 0], false);
    w |= expired_case([2, 0, 0], [1, 0, 0], false) | expired_case([3, 0, 0], [0, 0, 0], false) | expired_case([3, 0, 0], [3, 0, 0], false);
    w |= expired_case([0, 0, 0], [0, 0, 0], false);
    kani::cover!(w & 4 != 0, "nobody expires although deadlines exist");
    kani::cover!(w & 16 != 0, "deadline == now counts as expired");
}
// NOT REGISTERED (does not finish within the budget, see reg/*.py): attributes removed
// #[kani::proof]
// // NOT REGISTERED (does not finish within the budget, see reg/*.py): attributes removed
// #[kani::unwind(8)]
fn c13_expired_clock_sym() {
    let w = expired_clock_case(false, false);
    kani::cover!(w & 1 != 0, "deadline passed");
    kani::cover!(w & 2 != 0, "deadline in the future");
    kani::cover!(w & 4 != 0, "no deadline");
    kani::cover!(w & 8 != 0, "deadline == now");
    kani::cover!(w & 16 != 0, "same second, later nanosecond");
}
/// timeout scan, two clients
// NOT REGISTERED (does not finish within the budget, see reg/*.py): attributes removed
// #[kani::proof]
// // NOT REGISTERED (does not finish within the budget, see reg/*.py): attributes removed
// #[kani::unwind(8)]
fn c13_expired_two_same_key() {
    let mut w = 0u32;
    w |= expired_case([1, 1, 0], [1, 0, 0], false) | expired_case([1, 1, 0], [0, 2, 0], false) | expired_case([1, 1, 0], [2, 1, 0], false);
    w |= expired_case([1, 1, 0], [3, 3, 0], false) | expired_case([1, 1, 0], [3, 1, 0], false) | expired_case([2, 2, 0], [1, 3, 0], false);
    kani::cover!(w & 2 != 0, "two clients expire at once");
    kani::cover!(w & 8 != 0, "a client behind the head of a queue expires alone");
}
// NOT REGISTERED (does not finish within the budget, see reg/*.py): attributes removed
// #[kani::proof]
// // NOT REGISTERED (does not finish within the budget, see reg/*.py): attributes removed
// #[kani::unwind(8)]
fn c13_expired_two_mixed() {
    let mut w = 0u32;
    w |= expired_case([1, 2, 0], [1, 0, 0], false) | expired_case([1, 2, 0], [2, 1, 0], false) | expired_case([2, 1, 0], [3, 2, 0], false);
    w |= expired_case([3, 1, 0], [0, 1, 0], false) | expired_case([3, 1, 0], [3, 2, 0], false) | expired_case([1, 3, 0], [2, 0, 0], false) | expired_case([3, 3, 0], [3, 0, 0], false);
    kani::cover!(w & 2 != 0, "two clients expire at once");
}
// NOT REGISTERED (does not finish within the budget, see reg/*.py): attributes removed
// #[kani::proof]
// // NOT REGISTERED (does not finish within the budget, see reg/*.py): attributes removed
// #[kani::unwind(8)]
fn c13_expired_multikey_kf() {
    let mut w = 0u32;
    w |= expired_case([3, 0, 0], [1, 0, 0], true) | expired_case([3, 1, 0], [2, 0, 0], true) | expired_case([1, 3, 0], [0, 1, 0], true) | expired_case([3, 3, 0], [1, 2, 0], true);
    w |= expired_clock_case(true, true);
    expired_covers_kf(w);
}

// ---- thorough tier
#[kani::proof]
#[kani::unwind(6)]
fn c13_prestate_wf() {
    shapes_le2!(prestate_case);
    shapes_3sel!(prestate_case);
    kani::cover!(true, "all shapes built and checked");
}
// NOT REGISTERED (does not finish within the budget, see reg/*.py): attributes removed
// #[kani::proof]
// #[kani::unwind(6)]
fn c13_pop_rest_n3_f1() {
    let mut w = 0u32;
    shapes_3!(1, |ks| w |= pop_case(ks, 0, false) | pop_case(ks, 1, false));
    kani::cover!(w & (2 | 4 | 8) != 0, "a pop outside the defect region was checked");
}
// NOT REGISTERED (does not finish within the budget, see reg/*.py): attributes removed
// #[kani::proof]
// #[kani::unwind(6)]
fn c13_pop_rest_n3_f2() {
    let mut w = 0u32;
    shapes_3!(2, |ks| w |= pop_case(ks, 0, false) | pop_case(ks, 1, false));
    kani::cover!(w & (2 | 4 | 8) != 0, "a pop outside the defect region was checked");
}
// NOT REGISTERED (does not finish within the budget, see reg/*.py): attributes removed
// #[kani::proof]
// #[kani::unwind(6)]
fn c13_pop_multikey_n3_kf() {
    let mut w = 0u32;
    shapes_3!(3, |ks| w |= pop_case(ks, 0, true) | pop_case(ks, 1, true));
    shapes_3!(1, |ks| w |= pop_case(ks, 0, true) | pop_case(ks, 1, true));
    pop_covers_kf(w);
}
// NOT REGISTERED (does not finish within the budget, see reg/*.py): attributes removed
// #[kani::proof]
// // NOT REGISTERED (does not finish within the budget, see reg/*.py): attributes removed
// #[kani::unwind(6)]
fn c13_unregister_n3_sel() {
    let mut w = 0u32;
    shapes_3sel!(|ks| w |= unregister_case(ks, 0) | unregister_case(ks, 1) | unregister_case(ks, 2));
    kani::cover!(w & 1 != 0, "unregistered the second client of both queues");
}
// NOT REGISTERED (does not finish within the budget, see reg/*.py): attributes removed
// #[kani::proof]
// // NOT REGISTERED (does not finish within the budget, see reg/*.py): attributes removed
// #[kani::unwind(8)]
fn c13_expired_rest_n3_sel() {
    let mut w = 0u32;
    w |= expired_case([1, 1, 1], [1, 2, 1], false) | expired_case([1, 1, 1], [0, 1, 3], false) | expired_case([1, 1, 1], [3, 2, 0], false);
    w |= expired_case([1, 3, 2], [1, 0, 3], false) | expired_case([1, 3, 2], [2, 3, 1], false) | expired_case([2, 1, 3], [0, 2, 0], false);
    kani::cover!(w & 2 != 0, "two clients expire at once");
}
// NOT REGISTERED (does not finish within the budget, see reg/*.py): attributes removed
// #[kani::proof]
// // NOT REGISTERED (does not finish within the budget, see reg/*.py): attributes removed
// #[kani::unwind(8)]
fn c13_expired_multikey_n3_kf() {
    let mut w = 0u32;
    w |= expired_case([3, 3, 3], [1, 1, 1], true) | expired_case([1, 3, 2], [0, 2, 0], true);
    expired_covers_kf(w);
}

/// timeout sweep over ONE queue [c1 expired, c2 expired, c3 waits forever] (single instance, exact
/// Vec stubs): exactly c1 and c2 are reported and removed, c3 stays queued
// NOT REGISTERED: out of memory at 14 GB also with the exact Vec stubs and fs_array=4096
// #[kani::proof] #[kani::unwind(8)] + Vec::new / Vec::push / ptr::copy stubs
// (retried with 36 GB and without reach checks: symex 104 s, then 23.7 M variables / 103 M clauses and out of memory)
fn c13_expired_two_then_waiter() {
    let w = expired_case([1, 1, 1], [1, 2, 0], false);
    kani::cover!(w & 2 != 0, "two clients expire at once");
}
