// Overlay for src/storage/skiplist.rs (child module => sees the private node / inner structs).
// C04: the skip list stays totally ordered and consistent under every update.
//
// Shape of every harness: a pre-state built DIRECTLY (nodes and towers by struct literal, tower
// heights concrete per harness, members and scores symbolic and *assumed* to satisfy the order
// invariant), ONE real operation with full-width symbolic arguments, then the structural
// invariant walked over all levels + a declarative sorted-sequence oracle.  Because the pre-state
// is an arbitrary valid list of the bounded shape, one step is inductive.
// MAX_LEVEL is shrunk 32 -> 4 by the group (towers higher than 4 are outside the claim).
// Key type: u8 for the structural harnesses (stated instantiation), Vec<u8> (production) for the
// `v_` harnesses and for the engine-level harnesses in ovl_zset_engine.rs.
#![allow(dead_code, unused)]
use super::*;
use crate::verif_common::*;
use std::panic::catch_unwind;
use std::ptr::null_mut;

type Node<K> = SkipListNode<K, f64>;
/// largest chain the walker accepts (3 pre-state nodes + 1 inserted)
pub const CAP: usize = 4;

// ---------------------------------------------------------------- stubs
/// Level handed out by the `random_level` stub; the harness sets it (symbolic in 0..MAX_LEVEL or
/// concrete).  The real function returns a value in 0..=MAX_LEVEL-1 (loop guard `level < MAX_LEVEL - 1`).
static mut NEXT_LEVEL: usize = 0;
fn rl_stub<K, V>(_s: &SkipList<K, V>) -> usize
where
    K: Clone + Ord + Debug + std::hash::Hash + Eq,
    V: Clone + PartialOrd + Debug,
{
    unsafe { NEXT_LEVEL }
}
fn set_level_any() -> usize {
    let l: usize = kani::any();
    kani::assume(l < MAX_LEVEL);
    unsafe { NEXT_LEVEL = l };
    l
}
fn set_level(l: usize) {
    assert!(l < MAX_LEVEL);
    unsafe { NEXT_LEVEL = l };
}

/// Never-used stand-in for the ThreadRng handle (random_level is stubbed; `rand::thread_rng`
/// cannot run under Kani).  ThreadRng is one Rc pointer; it is never dereferenced or dropped.
fn fake_rng() -> Arc<RwLock<rand::rngs::ThreadRng>> {
    Arc::new(RwLock::new(unsafe { std::mem::transmute::<usize, rand::rngs::ThreadRng>(8usize) }))
}

// ---------------------------------------------------------------- key_index container model
/// Model of `std::collections::HashMap<K, V>` for `SkipListInner::key_index` ONLY (the group
/// substitutes the `use` line of skiplist.rs).  Fixed capacity, no heap, no reallocation, no
/// element moves: the Vec-backed family model makes `push`/`remove` on a map that lives behind
/// `Arc<RwLock<..>>` a symbolic-size realloc/memmove, which runs CBMC out of memory (DESIGN 1.2).
/// API subset used by skiplist.rs: new, get, insert, remove, len, clear.  Semantics: a finite map;
/// exceeding the capacity is reported (assert), never silently cut.
pub const KI_CAP: usize = 4;
pub struct KeyIndexModel<K, V> {
    slots: [Option<(K, V)>; KI_CAP],
}
impl<K: Eq, V> KeyIndexModel<K, V> {
    pub fn new() -> Self {
        KeyIndexModel { slots: [const { None }; KI_CAP] }
    }
    pub fn len(&self) -> usize {
        let mut n = 0;
        let mut i = 0;
        while i < KI_CAP {
            if self.slots[i].is_some() {
                n += 1;
            }
            i += 1;
        }
        n
    }
    pub fn is_empty(&self) -> bool {
        self.len() == 0
    }
    pub fn clear(&mut self) {
        let mut i = 0;
        while i < KI_CAP {
            self.slots[i] = None;
            i += 1;
        }
    }
    fn pos<Q: ?Sized + Eq>(&self, k: &Q) -> Option<usize>
    where
        K: std::borrow::Borrow<Q>,
    {
        let mut r = None;
        let mut i = KI_CAP;
        while i > 0 {
            i -= 1;
            if let Some((kk, _)) = &self.slots[i] {
                if kk.borrow() == k {
                    r = Some(i);
                }
            }
        }
        r
    }
    pub fn get<Q: ?Sized + Eq>(&self, k: &Q) -> Option<&V>
    where
        K: std::borrow::Borrow<Q>,
    {
        match self.pos(k) {
            Some(i) => match &self.slots[i] {
                Some((_, v)) => Some(v),
                None => None,
            },
            None => None,
        }
    }
    pub fn contains_key<Q: ?Sized + Eq>(&self, k: &Q) -> bool
    where
        K: std::borrow::Borrow<Q>,
    {
        self.pos(k).is_some()
    }
    pub fn insert(&mut self, k: K, v: V) -> Option<V> {
        match self.pos(&k) {
            Some(i) => match self.slots[i].replace((k, v)) {
                Some((_, old)) => Some(old),
                None => None,
            },
            None => {
                let mut free = None;
                let mut i = KI_CAP;
                while i > 0 {
                    i -= 1;
                    if self.slots[i].is_none() {
                        free = Some(i);
                    }
                }
                match free {
                    Some(i) => self.slots[i] = Some((k, v)),
                    None => assert!(false, "key_index model capacity exceeded (outside the bound of this harness)"),
                }
                None
            }
        }
    }
    pub fn remove<Q: ?Sized + Eq>(&mut self, k: &Q) -> Option<V>
    where
        K: std::borrow::Borrow<Q>,
    {
        match self.pos(k) {
            Some(i) => match self.slots[i].take() {
                Some((_, v)) => Some(v),
                None => None,
            },
            None => None,
        }
    }
}

// ---------------------------------------------------------------- key types
/// members are one symbolic byte; as `u8` itself or as the production key type `Vec<u8>` of length 1
pub trait KB: Clone + Ord + Debug + std::hash::Hash + Eq {
    fn mk(b: u8) -> Self;
    fn kb(&self) -> u8;
}
impl KB for u8 {
    fn mk(b: u8) -> Self {
        b
    }
    fn kb(&self) -> u8 {
        *self
    }
}
impl KB for Vec<u8> {
    fn mk(b: u8) -> Self {
        vec![b]
    }
    fn kb(&self) -> u8 {
        assert!(self.len() == 1, "member bytes changed length");
        self[0]
    }
}

// ---------------------------------------------------------------- pre-state builder
fn node_size<K>(levels: usize) -> usize {
    std::mem::size_of::<Node<K>>() + levels * std::mem::size_of::<Option<*mut Node<K>>>()
}

/// Build a skip list whose level-0 chain is exactly (k[0],s[0]) .. (k[N-1],s[N-1]) in this order,
/// node i having a tower of h[i] levels (1..=MAX_LEVEL), every level linked consistently,
/// key_index / length / level / memory_usage filled to match.  No SkipList code runs.
fn mk_list<K, const N: usize>(h: [usize; N], k: [K; N], s: [f64; N], head_key: K) -> SkipList<K, f64>
where
    K: Clone + Ord + Debug + std::hash::Hash + Eq,
{
    let head: *mut Node<K> = Box::into_raw(Box::new(SkipListNode { key: head_key, value: 0.0, forward: vec![None; MAX_LEVEL] }));
    let mut nodes: [*mut Node<K>; N] = [null_mut(); N];
    let mut key_index: HashMap<K, f64> = HashMap::new();
    let mut mem = node_size::<K>(MAX_LEVEL);
    let mut maxh = 1;
    let mut i = 0;
    let mut kit = k.into_iter();
    while i < N {
        assert!(h[i] >= 1 && h[i] <= MAX_LEVEL);
        let key = kit.next().unwrap();
        key_index.insert(key.clone(), s[i]);
        nodes[i] = Box::into_raw(Box::new(SkipListNode { key, value: s[i], forward: vec![None; h[i]] }));
        mem += node_size::<K>(h[i]);
        if h[i] > maxh {
            maxh = h[i];
        }
        i += 1;
    }
    let mut l = 0;
    while l < MAX_LEVEL {
        let mut prev = head;
        let mut i = 0;
        while i < N {
            if h[i] > l {
                unsafe {
                    (&mut (*prev).forward)[l] = Some(nodes[i]);
                }
                prev = nodes[i];
            }
            i += 1;
        }
        l += 1;
    }
    SkipList {
        inner: Arc::new(RwLock::new(SkipListInner { head, level: maxh - 1, length: N, memory_usage: mem, key_index })),
        rng: fake_rng(),
    }
}

fn any_score() -> f64 {
    let s: f64 = kani::any();
    kani::assume(!s.is_nan());
    s
}
/// (score, member) order of a sorted set: by score (IEEE: -0.0 == +0.0), then by member.
fn lt8(s1: f64, k1: u8, s2: f64, k2: u8) -> bool {
    s1 < s2 || (s1 == s2 && k1 < k2)
}
/// N arbitrary distinct members with arbitrary non-NaN scores, assumed strictly increasing by (score, member).
fn any_sorted8<const N: usize>() -> ([u8; N], [f64; N]) {
    let k: [u8; N] = kani::any();
    let mut s = [0.0f64; N];
    let mut i = 0;
    while i < N {
        s[i] = any_score();
        i += 1;
    }
    let mut i = 0;
    while i + 1 < N {
        kani::assume(lt8(s[i], k[i], s[i + 1], k[i + 1]));
        let mut j = i + 1;
        while j < N {
            kani::assume(k[i] != k[j]);
            j += 1;
        }
        i += 1;
    }
    (k, s)
}
fn any_list<K: KB, const N: usize>(h: [usize; N]) -> (SkipList<K, f64>, [u8; N], [f64; N]) {
    let (k, s) = any_sorted8::<N>();
    let l = mk_list(h, k.map(|b| K::mk(b)), s, K::mk(0));
    (l, k, s)
}

// ---------------------------------------------------------------- structural invariant
/// The level-0 chain as found by the walker: members (one byte each) and scores, in order.
pub struct Snap {
    pub n: usize,
    pub k: [u8; CAP],
    pub s: [f64; CAP],
}

/// direct access to the inner data (the walker is an observer; it does not go through the lock)
unsafe fn inner_of<K>(l: &SkipList<K, f64>) -> &mut SkipListInner<K, f64> {
    let rw = Arc::as_ptr(&l.inner) as *mut RwLock<SkipListInner<K, f64>>;
    match (*rw).get_mut() {
        Ok(r) => r,
        Err(_) => {
            assert!(false, "inv: lock poisoned");
            loop {}
        }
    }
}

/// Walk all levels and assert the structural invariant:
///  * level-0 chain has at most CAP nodes (no cycle), strictly increasing by (score, member), no NaN score;
///  * for every level lv >= 1 the chain on that level is EXACTLY the sequence of nodes whose tower
///    is higher than lv, in level-0 order (hence every level is a sub-sequence of the level below,
///    and a node is linked on exactly the levels of its tower); tower height 1..=MAX_LEVEL;
///  * `level` is the highest non-empty level (or 0), levels above it are empty;
///  * `length` == chain length == `key_index.len()`, index score == node score (bit for bit);
///  * `memory_usage` == head + sum of node sizes.
/// All dereferences are checked by Kani's memory-safety checks (dangling / freed nodes are flagged).
/// Loops have concrete trip counts (CAP, MAX_LEVEL) to keep symbolic execution small.
fn check_inv<K: KB>(l: &SkipList<K, f64>) -> Snap {
    unsafe {
        let inner = inner_of(l);
        let head = inner.head;
        assert!((*head).forward.len() == MAX_LEVEL, "inv: head tower has MAX_LEVEL slots");
        // level 0
        let mut p0: [*mut Node<K>; CAP] = [null_mut(); CAP];
        let mut hl: [usize; CAP] = [0; CAP];
        let mut n0 = 0;
        let mut cur = (&(*head).forward)[0];
        let mut step = 0;
        while step < CAP {
            if let Some(p) = cur {
                p0[step] = p;
                hl[step] = (*p).forward.len();
                n0 = step + 1;
                cur = (&(*p).forward)[0];
            }
            step += 1;
        }
        assert!(cur.is_none(), "inv: level-0 chain longer than the bound (duplicate node or cycle)");
        let mut sn = Snap { n: n0, k: [0; CAP], s: [0.0; CAP] };
        let mut mem = node_size::<K>(MAX_LEVEL);
        let mut i = 0;
        while i < CAP {
            if i < n0 {
                let a = p0[i];
                sn.k[i] = (*a).key.kb();
                sn.s[i] = (*a).value;
                assert!(sn.s[i] == sn.s[i], "inv: NaN score stored");
                assert!(hl[i] >= 1 && hl[i] <= MAX_LEVEL, "inv: tower height in 1..=MAX_LEVEL");
                mem += node_size::<K>(hl[i]);
                if i > 0 {
                    assert!(lt8(sn.s[i - 1], sn.k[i - 1], sn.s[i], sn.k[i]), "inv: level-0 chain strictly increasing by (score, member)");
                }
                match inner.key_index.get(&(*a).key) {
                    Some(v) => assert!(v.to_bits() == sn.s[i].to_bits(), "inv: key_index score == node score"),
                    None => assert!(false, "inv: chain member missing from key_index"),
                }
            }
            i += 1;
        }
        assert!(inner.length == n0, "inv: length == level-0 chain length");
        assert!(inner.key_index.len() == n0, "inv: key_index.len() == level-0 chain length");
        assert!(inner.memory_usage == mem, "inv: memory_usage == head + sum of node sizes");
        assert!(inner.level < MAX_LEVEL, "inv: level < MAX_LEVEL");
        // higher levels: successor of node j on level lv == next node with a tower higher than lv
        let mut lv = 1;
        while lv < MAX_LEVEL {
            let mut nxt: Option<*mut Node<K>> = None;
            let mut j = CAP;
            while j > 0 {
                j -= 1;
                if j < n0 && hl[j] > lv {
                    assert!((&(*p0[j]).forward)[lv] == nxt, "inv: level chain == nodes with a higher tower, in level-0 order");
                    nxt = Some(p0[j]);
                }
            }
            assert!((&(*head).forward)[lv] == nxt, "inv: head of level chain == first node with a higher tower");
            if lv > inner.level {
                assert!(nxt.is_none(), "inv: levels above `level` are empty");
            }
            if lv == inner.level {
                assert!(nxt.is_some(), "inv: `level` is the highest non-empty level (or 0)");
            }
            lv += 1;
        }
        sn
    }
}

/// position of member `key` in the snapshot
pub fn snap_find(sn: &Snap, key: u8) -> Option<usize> {
    let mut r = None;
    let mut i = CAP;
    while i > 0 {
        i -= 1;
        if i < sn.n && sn.k[i] == key {
            r = Some(i);
        }
    }
    r
}
pub fn snap_has(sn: &Snap, key: u8, score: f64) -> bool {
    match snap_find(sn, key) {
        Some(i) => sn.s[i].to_bits() == score.to_bits(),
        None => false,
    }
}
fn find8<const N: usize>(k: &[u8; N], key: u8) -> Option<usize> {
    let mut r = None;
    let mut i = N;
    while i > 0 {
        i -= 1;
        if k[i] == key {
            r = Some(i);
        }
    }
    r
}

// ---------------------------------------------------------------- pub API for the engine-level overlay
// (the overlay module itself is private to `skiplist`; inherent methods are visible crate-wide)
impl<K, V> SkipList<K, V>
where
    K: Clone + Ord + Debug + std::hash::Hash + Eq,
    V: Clone + PartialOrd + Debug,
{
    /// stub target for `random_level`
    pub fn verif_rl(&self) -> usize {
        unsafe { NEXT_LEVEL }
    }
}
impl SkipList<Vec<u8>, f64> {
    pub fn verif_set_level_any() -> usize {
        set_level_any()
    }
    pub fn verif_set_level(l: usize) {
        set_level(l)
    }
    /// arbitrary valid list of the given tower shape; returns the members (one byte each) and scores in order
    pub fn verif_any<const N: usize>(h: [usize; N]) -> (Self, [u8; N], [f64; N]) {
        any_list::<Vec<u8>, N>(h)
    }
    /// list of the given tower shape holding exactly the given (member byte, score) pairs, which the
    /// caller has ordered by (score, member)
    pub fn verif_from<const N: usize>(h: [usize; N], k: [u8; N], s: [f64; N]) -> Self {
        mk_list(h, k.map(|b| <Vec<u8> as KB>::mk(b)), s, <Vec<u8> as KB>::mk(0))
    }
    /// assert the structural invariant, return the level-0 chain
    pub fn verif_check(&self) -> (usize, [u8; CAP], [f64; CAP]) {
        let sn = check_inv(self);
        (sn.n, sn.k, sn.s)
    }
}
/// stand-in for `rand::thread_rng()` (SkipList::new() is reachable from zadd/zincrby on an absent key)
pub fn fake_thread_rng() -> rand::rngs::ThreadRng {
    unsafe { std::mem::transmute::<usize, rand::rngs::ThreadRng>(8usize) }
}

// ---------------------------------------------------------------- harness bodies

/// the builder itself yields a list that satisfies the invariant (validates builder + walker; vacuity witness)
fn body_build<K: KB, const N: usize>(h: [usize; N]) {
    let (l, k, s) = any_list::<K, N>(h);
    let sn = check_inv(&l);
    assert!(sn.n == N);
    let mut i = 0;
    while i < N {
        assert!(snap_find(&sn, k[i]) == Some(i) && sn.s[i].to_bits() == s[i].to_bits());
        i += 1;
    }
    kani::cover!(true, "pre-state of this shape exists");
    std::mem::forget(l);
}

/// which members the inserted key may be
#[derive(Clone, Copy, PartialEq)]
enum Who {
    Any,
    New,
    Existing,
}

/// ONE real `insert(key, score)`: new member or re-score of an existing one to an arbitrary position.
fn body_insert<K: KB, const N: usize>(h: [usize; N], who: Who, new_level: Option<usize>) {
    let (l, k, s) = any_list::<K, N>(h);
    let key: u8 = kani::any();
    let score = any_score();
    let pos = find8(&k, key);
    match who {
        Who::Any => {}
        Who::New => kani::assume(pos.is_none()),
        Who::Existing => kani::assume(pos.is_some()),
    }
    match new_level {
        Some(x) => set_level(x),
        None => {
            set_level_any();
        }
    }
    let r = l.insert(K::mk(key), score);
    let sn = check_inv(&l);
    match pos {
        Some(i) => {
            assert!(r.map(|x| x.to_bits()) == Some(s[i].to_bits()), "insert of an existing member returns its old score");
            assert!(sn.n == N, "re-score keeps the cardinality");
        }
        None => {
            assert!(r.is_none(), "insert of a new member returns None");
            assert!(sn.n == N + 1, "insert of a new member adds exactly one");
        }
    }
    assert!(snap_has(&sn, key, score), "inserted member present once with its latest score");
    let mut i = 0;
    while i < N {
        if k[i] != key {
            assert!(snap_has(&sn, k[i], s[i]), "other members keep their scores");
        }
        i += 1;
    }
    // ONE witness per harness (every cover is one more solver round; a cover under a condition
    // that is constant-false for this instantiation would be reported as unsatisfiable)
    let w = if N >= 2 && who != Who::New {
        // re-score across all neighbours
        pos == Some(0) && snap_find(&sn, key) == Some(N - 1)
    } else if N >= 1 && who != Who::Existing {
        // equal scores: ordered by member
        pos.is_none() && score == s[0] && snap_find(&sn, key) == Some(0)
    } else {
        score.to_bits() == (-0.0f64).to_bits()
    };
    kani::cover!(w, "witness: re-score across neighbours / equal scores ordered by member / -0.0");
    std::mem::forget(l);
}

/// ONE real `remove(key)`: any member (first / middle / last) or an absent one.
fn body_remove<K: KB, const N: usize>(h: [usize; N]) {
    let (l, k, s) = any_list::<K, N>(h);
    let key: u8 = kani::any();
    let pos = find8(&k, key);
    let r = l.remove(&K::mk(key));
    let sn = check_inv(&l);
    match pos {
        Some(i) => {
            assert!(r.map(|x| x.to_bits()) == Some(s[i].to_bits()), "remove returns the member's score");
            assert!(sn.n == N - 1, "remove takes exactly one member out");
        }
        None => {
            assert!(r.is_none(), "remove of an absent member returns None");
            assert!(sn.n == N, "remove of an absent member changes nothing");
        }
    }
    assert!(snap_find(&sn, key).is_none(), "removed member is gone");
    let mut i = 0;
    while i < N {
        if k[i] != key {
            assert!(snap_has(&sn, k[i], s[i]), "other members keep their scores");
        }
        i += 1;
    }
    let w = if N >= 1 { pos == Some(N / 2) } else { pos.is_none() };
    kani::cover!(w, "witness: middle (or only) member removed");
    std::mem::forget(l);
}

/// read-only queries by member: get_score, get_rank (full-width key), len, is_empty
fn body_rank<K: KB, const N: usize>(h: [usize; N]) {
    let (l, k, s) = any_list::<K, N>(h);
    let key: u8 = kani::any();
    let pos = find8(&k, key);
    let sc = l.get_score(&K::mk(key));
    let rk = l.get_rank(&K::mk(key));
    match pos {
        Some(i) => {
            assert!(sc.map(|x| x.to_bits()) == Some(s[i].to_bits()), "get_score of a member");
            assert!(rk == Some(i), "get_rank == position in (score, member) order");
        }
        None => {
            assert!(sc.is_none(), "get_score of an absent member");
            assert!(rk.is_none(), "get_rank of an absent member");
        }
    }
    assert!(l.len() == N && l.is_empty() == (N == 0), "len / is_empty");
    let w = if N >= 1 { rk == Some(N - 1) } else { rk.is_none() };
    kani::cover!(w, "witness: rank of the last member");
    let sn = check_inv(&l);
    assert!(sn.n == N, "queries do not change the list");
    std::mem::forget(l);
}

/// read-only queries by rank: get_by_rank(r), range_by_rank(a, b) with full-width usize arguments
fn body_by_rank<K: KB, const N: usize>(h: [usize; N]) {
    let (l, k, s) = any_list::<K, N>(h);
    let r: usize = kani::any();
    let g = std::mem::ManuallyDrop::new(l.get_by_rank(r));
    if r < N {
        match &*g {
            Some((gk, gs)) => assert!(gk.kb() == k[r] && gs.to_bits() == s[r].to_bits(), "get_by_rank(r) is the r-th member"),
            None => assert!(false, "get_by_rank(r) for r < len must be Some"),
        }
    } else {
        assert!(g.is_none(), "get_by_rank beyond the end is None");
    }
    let a: usize = kani::any();
    let b: usize = kani::any();
    let rr = std::mem::ManuallyDrop::new(l.range_by_rank(a, b));
    // model: ranks a..=min(b, N-1) if a < N and a <= b, else nothing
    let exp_n = if a < N && a <= b { (if b < N { b } else { N - 1 }) - a + 1 } else { 0 };
    assert!(rr.items.len() == exp_n, "range_by_rank cardinality");
    let mut i = 0;
    while i < N {
        if i < exp_n {
            assert!(rr.items[i].0.kb() == k[a + i] && rr.items[i].1.to_bits() == s[a + i].to_bits(), "range_by_rank items in order");
        }
        i += 1;
    }
    kani::cover!(exp_n == N && b == usize::MAX && r == N.wrapping_sub(1), "witness: whole list, stop = usize::MAX, get_by_rank(last)");
    let sn = check_inv(&l);
    assert!(sn.n == N, "queries do not change the list");
    std::mem::forget(l);
}

/// read-only query by score: range_by_score(min, max), full-width non-NaN f64 bounds (incl. +-inf, +-0.0, min > max)
fn body_by_score<K: KB, const N: usize>(h: [usize; N]) {
    let (l, k, s) = any_list::<K, N>(h);
    let lo = any_score();
    let hi = any_score();
    let rr = std::mem::ManuallyDrop::new(l.range_by_score(lo, hi));
    // model: the members with lo <= score <= hi, in chain order
    let mut exp_n = 0;
    let mut i = 0;
    while i < N {
        if lo <= s[i] && s[i] <= hi {
            assert!(exp_n < rr.items.len(), "range_by_score misses a member inside the bounds");
            assert!(rr.items[exp_n].0.kb() == k[i] && rr.items[exp_n].1.to_bits() == s[i].to_bits(), "range_by_score items in order");
            exp_n += 1;
        }
        i += 1;
    }
    assert!(rr.items.len() == exp_n, "range_by_score returns nothing outside the bounds");
    let w = if N >= 2 { exp_n == 1 && lo == hi } else { exp_n == N && lo == f64::NEG_INFINITY };
    kani::cover!(w, "witness: point query selecting one member");
    let sn = check_inv(&l);
    assert!(sn.n == N, "queries do not change the list");
    std::mem::forget(l);
}

/// Consequence of a stored NaN at the skip-list level (documents why NaN must be refused before it
/// reaches the list): insert(key, NaN) followed by remove(key) leaves the node in the chain while
/// the index forgets it (`(*target).value == *score` never holds for NaN).
fn body_nan_consequence<K: KB>() {
    let (l, k, s) = any_list::<K, 1>([1]);
    let key: u8 = kani::any();
    kani::assume(key != k[0]);
    set_level(0);
    l.insert(K::mk(key), f64::NAN);
    let r = l.remove(&K::mk(key));
    let sn = check_inv(&l);
    assert!(snap_find(&sn, key).is_none(), "removed member is gone");
    std::mem::forget(l);
}

// ---------------------------------------------------------------- harnesses
// Written out one by one (replay.py looks for `fn <name>(` in this file).
// Name scheme: h<towers> = tower heights of the pre-state nodes in chain order, l<k> = level
// handed out by the random_level stub (concrete: a symbolic level makes `vec![None; level + 1]`
// a symbolic-size allocation, which runs CBMC out of memory).  unwind 5 = CAP + 1.
#[kani::proof]
#[kani::unwind(5)]
#[kani::stub(SkipList::random_level, rl_stub)]
fn c04_build_h213() {
    body_build::<u8, 3>([2, 1, 3]);
}
#[kani::proof]
#[kani::unwind(5)]
#[kani::stub(SkipList::random_level, rl_stub)]
fn c04_remove_h213() {
    body_remove::<u8, 3>([2, 1, 3]);
}
#[kani::proof]
#[kani::unwind(5)]
#[kani::stub(SkipList::random_level, rl_stub)]
fn c04_rescore_h121_l1() {
    body_insert::<u8, 3>([1, 2, 1], Who::Existing, Some(1));
}
#[kani::proof]
#[kani::unwind(5)]
#[kani::stub(SkipList::random_level, rl_stub)]
fn c04_insert_new_h121_l1() {
    body_insert::<u8, 3>([1, 2, 1], Who::New, Some(1));
}
#[kani::proof]
#[kani::unwind(5)]
#[kani::stub(SkipList::random_level, rl_stub)]
fn c04_insert_h12_l2() {
    body_insert::<u8, 2>([1, 2], Who::Any, Some(2));
}
#[kani::proof]
#[kani::unwind(5)]
#[kani::stub(SkipList::random_level, rl_stub)]
fn c04_insert_h12_l1() {
    body_insert::<u8, 2>([1, 2], Who::Any, Some(1));
}
#[kani::proof]
#[kani::unwind(5)]
#[kani::stub(SkipList::random_level, rl_stub)]
fn c04_insert_empty_l0() {
    body_insert::<u8, 0>([], Who::Any, Some(0));
}
#[kani::proof]
#[kani::unwind(5)]
#[kani::stub(SkipList::random_level, rl_stub)]
fn c04_rank_h213() {
    body_rank::<u8, 3>([2, 1, 3]);
}
#[kani::proof]
#[kani::unwind(5)]
#[kani::stub(SkipList::random_level, rl_stub)]
fn c04_byrank_h213() {
    body_by_rank::<u8, 3>([2, 1, 3]);
}
#[kani::proof]
#[kani::unwind(5)]
#[kani::stub(SkipList::random_level, rl_stub)]
fn c04_byscore_h213() {
    body_by_score::<u8, 3>([2, 1, 3]);
}
#[kani::proof]
#[kani::unwind(5)]
#[kani::stub(SkipList::random_level, rl_stub)]
fn c04_v_remove_h21() {
    body_remove::<Vec<u8>, 2>([2, 1]);
}
#[kani::proof]
#[kani::unwind(5)]
#[kani::stub(SkipList::random_level, rl_stub)]
fn c04_v_insert_h12_l1() {
    body_insert::<Vec<u8>, 2>([1, 2], Who::Any, Some(1));
}
