//! Differential test of the container models against std (exhaustive over short operation
//! sequences on a 3-key universe).  Run by `run.py setup`.
#[path = "../../verif_std_vec.rs"]
mod vecm;
#[path = "../../verif_std_inline.rs"]
mod inl;

use std::collections as sc;

fn sorted<T: Ord>(mut v: Vec<T>) -> Vec<T> { v.sort(); v }

macro_rules! test_family {
    ($m:ident, $maxlen:expr) => {{
        let keys: [Vec<u8>; 3] = [vec![1], vec![2], vec![2, 0]];
        let mut n = 0u64;
        // ---- HashMap: ops 0..3 x key x val
        let nops = 4 * 3 * 2;
        let mut seq = vec![0usize; $maxlen];
        for len in 0..=$maxlen {
            let total = (nops as u64).pow(len as u32);
            for code in 0..total {
                let mut c = code;
                for i in 0..len { seq[i] = (c % nops as u64) as usize; c /= nops as u64; }
                let mut a: sc::HashMap<Vec<u8>, u8> = sc::HashMap::new();
                let mut b: $m::HashMap<Vec<u8>, u8> = $m::HashMap::new();
                for i in 0..len {
                    let op = seq[i] % 4; let k = &keys[(seq[i] / 4) % 3]; let v = (seq[i] / 12) as u8;
                    match op {
                        0 => assert_eq!(a.insert(k.clone(), v), b.insert(k.clone(), v)),
                        1 => assert_eq!(a.remove(k), b.remove(k)),
                        2 => assert_eq!(a.get(k).cloned(), b.get(k).cloned()),
                        _ => { *a.entry(k.clone()).or_insert_with(|| 7) += 1; *b.entry(k.clone()).or_insert_with(|| 7) += 1; }
                    }
                    assert_eq!(a.len(), b.len());
                    assert_eq!(a.contains_key(k), b.contains_key(k));
                }
                assert_eq!(sorted(a.iter().map(|(k, v)| (k.clone(), *v)).collect()), sorted(b.iter().map(|(k, v)| (k.clone(), *v)).collect()));
                assert_eq!(sorted(a.keys().cloned().collect()), sorted(b.keys().cloned().collect()));
                n += 1;
            }
        }
        // ---- HashSet
        let nops = 3 * 3;
        for len in 0..=$maxlen {
            let total = (nops as u64).pow(len as u32);
            for code in 0..total {
                let mut c = code;
                for i in 0..len { seq[i] = (c % nops as u64) as usize; c /= nops as u64; }
                let mut a: sc::HashSet<Vec<u8>> = sc::HashSet::new();
                let mut b: $m::HashSet<Vec<u8>> = $m::HashSet::new();
                for i in 0..len {
                    let op = seq[i] % 3; let k = &keys[seq[i] / 3];
                    match op {
                        0 => assert_eq!(a.insert(k.clone()), b.insert(k.clone())),
                        1 => assert_eq!(a.remove(k), b.remove(k)),
                        _ => assert_eq!(a.contains(k), b.contains(k)),
                    }
                    assert_eq!(a.len(), b.len());
                }
                assert_eq!(sorted(a.iter().cloned().collect()), sorted(b.iter().cloned().collect()));
                n += 1;
            }
        }
        // ---- VecDeque: push_back/push_front/pop_back/pop_front/remove(1)/truncate(1) with value
        let nops = 6 * 2;
        for len in 0..=$maxlen {
            let total = (nops as u64).pow(len as u32);
            for code in 0..total {
                let mut c = code;
                for i in 0..len { seq[i] = (c % nops as u64) as usize; c /= nops as u64; }
                let mut a: sc::VecDeque<u8> = sc::VecDeque::new();
                let mut b: $m::VecDeque<u8> = $m::VecDeque::new();
                let mut ok = true;
                for i in 0..len {
                    let op = seq[i] % 6; let v = (seq[i] / 6) as u8;
                    if a.len() >= 4 && op < 2 { ok = false; break; } // beyond the inline capacity
                    match op {
                        0 => { a.push_back(v); b.push_back(v); }
                        1 => { a.push_front(v); b.push_front(v); }
                        2 => assert_eq!(a.pop_back(), b.pop_back()),
                        3 => assert_eq!(a.pop_front(), b.pop_front()),
                        4 => assert_eq!(a.remove(1), b.remove(1)),
                        _ => { a.truncate(1); b.truncate(1); }
                    }
                    assert_eq!(a.len(), b.len());
                    assert_eq!(a.get(0).cloned(), b.get(0).cloned());
                    assert_eq!(a.front().cloned(), b.front().cloned());
                    assert_eq!(a.back().cloned(), b.back().cloned());
                }
                if ok {
                    assert_eq!(a.iter().cloned().collect::<Vec<_>>(), b.iter().cloned().collect::<Vec<_>>());
                }
                n += 1;
            }
        }
        // ---- BTreeMap: insert/remove/get + range queries
        let nops = 3 * 3;
        for len in 0..=$maxlen {
            let total = (nops as u64).pow(len as u32);
            for code in 0..total {
                let mut c = code;
                for i in 0..len { seq[i] = (c % nops as u64) as usize; c /= nops as u64; }
                let mut a: sc::BTreeMap<u8, u8> = sc::BTreeMap::new();
                let mut b: $m::BTreeMap<u8, u8> = $m::BTreeMap::new();
                for i in 0..len {
                    let op = seq[i] % 3; let k = (seq[i] / 3) as u8 * 2 + 1;
                    match op {
                        0 => assert_eq!(a.insert(k, i as u8), b.insert(k, i as u8)),
                        1 => assert_eq!(a.remove(&k), b.remove(&k)),
                        _ => assert_eq!(a.get(&k).cloned(), b.get(&k).cloned()),
                    }
                    assert_eq!(a.len(), b.len());
                }
                assert_eq!(a.iter().map(|(k, v)| (*k, *v)).collect::<Vec<_>>(), b.iter().map(|(k, v)| (*k, *v)).collect::<Vec<_>>());
                for lo in 0..7u8 { for hi in lo..7u8 {
                    assert_eq!(a.range(lo..hi).map(|(k, v)| (*k, *v)).collect::<Vec<_>>(), b.range(lo..hi).map(|(k, v)| (*k, *v)).collect::<Vec<_>>());
                    assert_eq!(a.range(lo..=hi).map(|(k, v)| (*k, *v)).collect::<Vec<_>>(), b.range(lo..=hi).map(|(k, v)| (*k, *v)).collect::<Vec<_>>());
                }}
                assert_eq!(a.first_key_value().map(|(k, v)| (*k, *v)), b.first_key_value().map(|(k, v)| (*k, *v)));
                assert_eq!(a.last_key_value().map(|(k, v)| (*k, *v)), b.last_key_value().map(|(k, v)| (*k, *v)));
                n += 1;
            }
        }
        n
    }};
}

fn main() {
    let n1 = test_family!(vecm, 4);
    let n2 = test_family!(inl, 4);
    println!("model_diff: {} + {} operation sequences agree with std", n1, n2);
}
