#!/usr/bin/env python3
import subprocess, sys, os, tempfile, shutil
here = os.path.dirname(os.path.abspath(__file__))
td = tempfile.mkdtemp(prefix="ferrous-verif-modeldiff-")
try:
    env = dict(os.environ, CARGO_NET_OFFLINE="true", CARGO_TARGET_DIR=td)
    p = subprocess.run(["cargo", "run", "--release", "--offline", "--quiet"], cwd=here, env=env)
    sys.exit(p.returncode)
finally:
    shutil.rmtree(td, ignore_errors=True)
