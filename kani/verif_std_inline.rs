// Container models used ONLY in the scratch copy that Kani compiles (never in /repo).
// Family "inline": fixed-capacity inline arrays, no heap, same API subset of std::collections
// as family "vec" (/verif/kani/verif_std_vec.rs).
//   storage  : `[Option<T>; CAP]` + length, CAP = 4; live elements are slots 0..n in insertion
//              order (HashMap / HashSet / VecDeque) or in key order (BTreeMap); slots n..CAP are None.
//   removal  : `take()` + compaction (order of the remaining elements is kept).
//   overflow : inserting a (CAP+1)-th element is `kani::assume(false)` under cfg(kani) (panic
//              natively): "collections of at most CAP entries" is part of the bound of every
//              claim that uses this family.
// Every loop has the syntactic bound CAP, so `#[kani::unwind(CAP + 1)]` always suffices for
// the model itself.  Not provided (cannot be expressed over Option slots, unused by ferrous):
// VecDeque::{as_slices, make_contiguous}.
// Validated against std by /verif/kani/model_diff (native differential test).
#![allow(dead_code, unused)]
use std::borrow::Borrow;
use std::fmt;
use std::marker::PhantomData;
use std::ops::{Bound, Index, IndexMut, RangeBounds};

pub const CAP: usize = 4;

#[inline(never)]
fn overflow() -> ! {
    #[cfg(kani)]
    kani::assume(false);
    panic!("verif_std (inline family): more than CAP entries in one container")
}

/// write into a slot that is known to be empty (no drop glue for the old content)
#[inline(always)]
fn put<T>(slot: &mut Option<T>, v: Option<T>) {
    let old = std::mem::replace(slot, v);
    std::mem::forget(old);
}

// ------------------------------------------------------------------ shared slot array
pub struct Slots<T> {
    pub a: [Option<T>; CAP],
    pub n: usize,
}

impl<T> Slots<T> {
    pub const fn new() -> Self {
        Slots { a: [const { None }; CAP], n: 0 }
    }
    #[inline(always)]
    pub fn len(&self) -> usize {
        self.n
    }
    pub fn clear(&mut self) {
        let mut i = 0;
        while i < CAP {
            self.a[i] = None;
            i += 1;
        }
        self.n = 0;
    }
    pub fn get(&self, i: usize) -> Option<&T> {
        if i < self.n && i < CAP {
            self.a[i].as_ref()
        } else {
            None
        }
    }
    pub fn get_mut(&mut self, i: usize) -> Option<&mut T> {
        if i < self.n && i < CAP {
            self.a[i].as_mut()
        } else {
            None
        }
    }
    pub fn push(&mut self, t: T) {
        let n = self.n;
        if n >= CAP {
            overflow();
        }
        put(&mut self.a[n], Some(t));
        self.n = n + 1;
    }
    /// insert at position i (0 <= i <= n), shifting the tail right
    pub fn insert_at(&mut self, i: usize, t: T) {
        let n = self.n;
        if n >= CAP {
            overflow();
        }
        assert!(i <= n, "insertion index out of bounds");
        let mut j = CAP - 1;
        while j > 0 {
            if j > i && j <= n {
                let x = self.a[j - 1].take();
                put(&mut self.a[j], x);
            }
            j -= 1;
        }
        put(&mut self.a[i], Some(t));
        self.n = n + 1;
    }
    /// remove position i (< n), shifting the tail left
    pub fn remove_at(&mut self, i: usize) -> Option<T> {
        let n = self.n;
        if !(i < n && i < CAP) {
            return None;
        }
        let r = self.a[i].take();
        let mut j = 1;
        while j < CAP {
            if j > i && j < n {
                let x = self.a[j].take();
                put(&mut self.a[j - 1], x);
            }
            j += 1;
        }
        self.n = n - 1;
        r
    }
    pub fn retain_mut<F: FnMut(&mut T) -> bool>(&mut self, mut f: F) {
        let mut w = 0;
        let mut r = 0;
        while r < CAP {
            if let Some(mut t) = self.a[r].take() {
                if f(&mut t) {
                    put(&mut self.a[w], Some(t));
                    w += 1;
                }
            }
            r += 1;
        }
        self.n = w;
    }
    pub fn truncate(&mut self, k: usize) {
        let mut i = 0;
        while i < CAP {
            if i >= k {
                self.a[i] = None;
            }
            i += 1;
        }
        if k < self.n {
            self.n = k;
        }
    }
    pub fn iter(&self) -> SlotIter<'_, T> {
        SlotIter { a: &self.a, lo: 0, hi: if self.n < CAP { self.n } else { CAP } }
    }
    pub fn iter_range(&self, lo: usize, hi: usize) -> SlotIter<'_, T> {
        let n = if self.n < CAP { self.n } else { CAP };
        assert!(lo <= hi && hi <= n, "range out of bounds");
        SlotIter { a: &self.a, lo, hi }
    }
    pub fn iter_mut(&mut self) -> SlotIterMut<'_, T> {
        let n = if self.n < CAP { self.n } else { CAP };
        SlotIterMut { a: &mut self.a as *mut [Option<T>; CAP], lo: 0, hi: n, _m: PhantomData }
    }
    pub fn take_all(&mut self) -> IntoIter<T> {
        let n = if self.n < CAP { self.n } else { CAP };
        let a = std::mem::replace(&mut self.a, [const { None }; CAP]);
        self.n = 0;
        IntoIter { a, lo: 0, hi: n }
    }
    /// remove positions lo..hi, return them in order
    pub fn take_range(&mut self, lo: usize, hi: usize) -> IntoIter<T> {
        let n = if self.n < CAP { self.n } else { CAP };
        assert!(lo <= hi && hi <= n, "drain range out of bounds");
        let mut out: [Option<T>; CAP] = [const { None }; CAP];
        let mut w_out = 0;
        let mut w = 0;
        let mut r = 0;
        while r < CAP {
            if let Some(t) = self.a[r].take() {
                if r >= lo && r < hi {
                    put(&mut out[w_out], Some(t));
                    w_out += 1;
                } else {
                    put(&mut self.a[w], Some(t));
                    w += 1;
                }
            }
            r += 1;
        }
        self.n = w;
        IntoIter { a: out, lo: 0, hi: w_out }
    }
    pub fn into_iter(self) -> IntoIter<T> {
        let n = if self.n < CAP { self.n } else { CAP };
        IntoIter { a: self.a, lo: 0, hi: n }
    }
    pub fn swap(&mut self, i: usize, j: usize) {
        assert!(i < self.n && j < self.n, "swap index out of bounds");
        self.a.swap(i, j)
    }
}
impl<T: Clone> Clone for Slots<T> {
    fn clone(&self) -> Self {
        let mut a: [Option<T>; CAP] = [const { None }; CAP];
        let mut i = 0;
        while i < CAP {
            if let Some(t) = &self.a[i] {
                put(&mut a[i], Some(t.clone()));
            }
            i += 1;
        }
        Slots { a, n: self.n }
    }
}

fn bounds_of<R: RangeBounds<usize>>(r: &R, n: usize) -> (usize, usize) {
    let lo = match r.start_bound() {
        Bound::Unbounded => 0,
        Bound::Included(&i) => i,
        Bound::Excluded(&i) => i + 1,
    };
    let hi = match r.end_bound() {
        Bound::Unbounded => n,
        Bound::Included(&i) => i + 1,
        Bound::Excluded(&i) => i,
    };
    (lo, hi)
}

/// shared-reference iterator over live slots lo..hi
pub struct SlotIter<'a, T> {
    a: &'a [Option<T>; CAP],
    lo: usize,
    hi: usize,
}
impl<'a, T> Iterator for SlotIter<'a, T> {
    type Item = &'a T;
    fn next(&mut self) -> Option<&'a T> {
        if self.lo < self.hi && self.lo < CAP {
            let r = self.a[self.lo].as_ref();
            self.lo += 1;
            r
        } else {
            None
        }
    }
    fn size_hint(&self) -> (usize, Option<usize>) {
        let k = if self.lo < self.hi { self.hi - self.lo } else { 0 };
        (k, Some(k))
    }
}
impl<'a, T> DoubleEndedIterator for SlotIter<'a, T> {
    fn next_back(&mut self) -> Option<&'a T> {
        if self.lo < self.hi && self.hi <= CAP {
            self.hi -= 1;
            self.a[self.hi].as_ref()
        } else {
            None
        }
    }
}
impl<'a, T> ExactSizeIterator for SlotIter<'a, T> {}
impl<'a, T> Clone for SlotIter<'a, T> {
    fn clone(&self) -> Self {
        SlotIter { a: self.a, lo: self.lo, hi: self.hi }
    }
}
/// mutable iterator over live slots.  Index-based through a raw pointer to the slot array (a
/// `slice::IterMut` walks element pointers, which CBMC resolves with byte-level accesses on the
/// whole array object); every index is handed out at most once, so the `&mut` never alias.
pub struct SlotIterMut<'a, T> {
    a: *mut [Option<T>; CAP],
    lo: usize,
    hi: usize,
    _m: PhantomData<&'a mut T>,
}
impl<'a, T> Iterator for SlotIterMut<'a, T> {
    type Item = &'a mut T;
    fn next(&mut self) -> Option<&'a mut T> {
        if self.lo < self.hi && self.lo < CAP {
            let i = self.lo;
            self.lo += 1;
            unsafe { (*self.a)[i].as_mut() }
        } else {
            None
        }
    }
    fn size_hint(&self) -> (usize, Option<usize>) {
        let k = if self.lo < self.hi { self.hi - self.lo } else { 0 };
        (k, Some(k))
    }
}
impl<'a, T> DoubleEndedIterator for SlotIterMut<'a, T> {
    fn next_back(&mut self) -> Option<&'a mut T> {
        if self.lo < self.hi && self.hi <= CAP {
            self.hi -= 1;
            let i = self.hi;
            unsafe { (*self.a)[i].as_mut() }
        } else {
            None
        }
    }
}
impl<'a, T> ExactSizeIterator for SlotIterMut<'a, T> {}
/// owning iterator (also the result of drain)
pub struct IntoIter<T> {
    a: [Option<T>; CAP],
    lo: usize,
    hi: usize,
}
impl<T> Iterator for IntoIter<T> {
    type Item = T;
    fn next(&mut self) -> Option<T> {
        if self.lo < self.hi && self.lo < CAP {
            let r = self.a[self.lo].take();
            self.lo += 1;
            r
        } else {
            None
        }
    }
    fn size_hint(&self) -> (usize, Option<usize>) {
        let k = if self.lo < self.hi { self.hi - self.lo } else { 0 };
        (k, Some(k))
    }
}
impl<T> DoubleEndedIterator for IntoIter<T> {
    fn next_back(&mut self) -> Option<T> {
        if self.lo < self.hi && self.hi <= CAP {
            self.hi -= 1;
            self.a[self.hi].take()
        } else {
            None
        }
    }
}
impl<T> ExactSizeIterator for IntoIter<T> {}

// ------------------------------------------------------------------ HashMap
pub struct RandomState;
pub struct HashMap<K, V, S = RandomState> {
    pub items: Slots<(K, V)>,
    _s: PhantomData<S>,
}

impl<K, V> HashMap<K, V, RandomState> {
    pub fn new() -> Self {
        HashMap { items: Slots::new(), _s: PhantomData }
    }
    pub fn with_capacity(_n: usize) -> Self {
        Self::new()
    }
}
impl<K, V, S> HashMap<K, V, S> {
    pub fn len(&self) -> usize {
        self.items.len()
    }
    pub fn is_empty(&self) -> bool {
        self.items.len() == 0
    }
    pub fn clear(&mut self) {
        self.items.clear()
    }
    pub fn capacity(&self) -> usize {
        self.items.len()
    }
    pub fn reserve(&mut self, _n: usize) {}
    pub fn shrink_to_fit(&mut self) {}
    pub fn iter(&self) -> Iter<'_, K, V> {
        Iter { it: self.items.iter() }
    }
    pub fn iter_mut(&mut self) -> IterMut<'_, K, V> {
        IterMut { it: self.items.iter_mut() }
    }
    pub fn keys(&self) -> Keys<'_, K, V> {
        Keys { it: self.items.iter() }
    }
    pub fn values(&self) -> Values<'_, K, V> {
        Values { it: self.items.iter() }
    }
    pub fn values_mut(&mut self) -> ValuesMut<'_, K, V> {
        ValuesMut { it: self.items.iter_mut() }
    }
    pub fn into_keys(self) -> impl Iterator<Item = K> {
        self.items.into_iter().map(|(k, _)| k)
    }
    pub fn into_values(self) -> impl Iterator<Item = V> {
        self.items.into_iter().map(|(_, v)| v)
    }
    pub fn retain<F: FnMut(&K, &mut V) -> bool>(&mut self, mut f: F) {
        self.items.retain_mut(|kv| f(&kv.0, &mut kv.1))
    }
    pub fn drain(&mut self) -> IntoIter<(K, V)> {
        self.items.take_all()
    }
}

impl<K: Eq, V, S> HashMap<K, V, S> {
    fn pos<Q: ?Sized + Eq>(&self, k: &Q) -> Option<usize>
    where
        K: Borrow<Q>,
    {
        let mut i = 0;
        while i < CAP {
            if i < self.items.n {
                if let Some(kv) = &self.items.a[i] {
                    if kv.0.borrow() == k {
                        return Some(i);
                    }
                }
            }
            i += 1;
        }
        None
    }
    pub fn insert(&mut self, k: K, v: V) -> Option<V> {
        match self.pos(&k) {
            Some(i) => Some(std::mem::replace(&mut self.items.a[i].as_mut().unwrap().1, v)),
            None => {
                self.items.push((k, v));
                None
            }
        }
    }
    pub fn get<Q: ?Sized + Eq>(&self, k: &Q) -> Option<&V>
    where
        K: Borrow<Q>,
    {
        match self.pos(k) {
            Some(i) => self.items.a[i].as_ref().map(|kv| &kv.1),
            None => None,
        }
    }
    pub fn get_key_value<Q: ?Sized + Eq>(&self, k: &Q) -> Option<(&K, &V)>
    where
        K: Borrow<Q>,
    {
        match self.pos(k) {
            Some(i) => self.items.a[i].as_ref().map(|kv| (&kv.0, &kv.1)),
            None => None,
        }
    }
    pub fn get_mut<Q: ?Sized + Eq>(&mut self, k: &Q) -> Option<&mut V>
    where
        K: Borrow<Q>,
    {
        match self.pos(k) {
            Some(i) => self.items.a[i].as_mut().map(|kv| &mut kv.1),
            None => None,
        }
    }
    pub fn contains_key<Q: ?Sized + Eq>(&self, k: &Q) -> bool
    where
        K: Borrow<Q>,
    {
        self.pos(k).is_some()
    }
    pub fn remove<Q: ?Sized + Eq>(&mut self, k: &Q) -> Option<V>
    where
        K: Borrow<Q>,
    {
        match self.pos(k) {
            Some(i) => self.items.remove_at(i).map(|kv| kv.1),
            None => None,
        }
    }
    pub fn remove_entry<Q: ?Sized + Eq>(&mut self, k: &Q) -> Option<(K, V)>
    where
        K: Borrow<Q>,
    {
        match self.pos(k) {
            Some(i) => self.items.remove_at(i),
            None => None,
        }
    }
    pub fn entry(&mut self, k: K) -> Entry<'_, K, V, S> {
        match self.pos(&k) {
            Some(i) => Entry::Occupied(OccupiedEntry { map: self, idx: i, key: k }),
            None => Entry::Vacant(VacantEntry { map: self, key: k }),
        }
    }
    pub fn extend<I: IntoIterator<Item = (K, V)>>(&mut self, it: I) {
        for (k, v) in it {
            self.insert(k, v);
        }
    }
}

pub enum Entry<'a, K, V, S = RandomState> {
    Occupied(OccupiedEntry<'a, K, V, S>),
    Vacant(VacantEntry<'a, K, V, S>),
}
pub struct OccupiedEntry<'a, K, V, S = RandomState> {
    map: &'a mut HashMap<K, V, S>,
    idx: usize,
    key: K,
}
pub struct VacantEntry<'a, K, V, S = RandomState> {
    map: &'a mut HashMap<K, V, S>,
    key: K,
}
impl<'a, K, V, S> OccupiedEntry<'a, K, V, S> {
    pub fn get(&self) -> &V {
        &self.map.items.a[self.idx].as_ref().unwrap().1
    }
    pub fn get_mut(&mut self) -> &mut V {
        &mut self.map.items.a[self.idx].as_mut().unwrap().1
    }
    pub fn into_mut(self) -> &'a mut V {
        &mut self.map.items.a[self.idx].as_mut().unwrap().1
    }
    pub fn insert(&mut self, v: V) -> V {
        std::mem::replace(&mut self.map.items.a[self.idx].as_mut().unwrap().1, v)
    }
    pub fn remove(self) -> V {
        self.map.items.remove_at(self.idx).unwrap().1
    }
    pub fn key(&self) -> &K {
        &self.key
    }
}
impl<'a, K, V, S> VacantEntry<'a, K, V, S> {
    pub fn insert(self, v: V) -> &'a mut V {
        let n = self.map.items.n;
        self.map.items.push((self.key, v));
        &mut self.map.items.a[n].as_mut().unwrap().1
    }
    pub fn key(&self) -> &K {
        &self.key
    }
}
impl<'a, K, V, S> Entry<'a, K, V, S> {
    pub fn or_insert(self, v: V) -> &'a mut V {
        match self {
            Entry::Occupied(o) => o.into_mut(),
            Entry::Vacant(e) => e.insert(v),
        }
    }
    pub fn or_insert_with<F: FnOnce() -> V>(self, f: F) -> &'a mut V {
        match self {
            Entry::Occupied(o) => o.into_mut(),
            Entry::Vacant(e) => e.insert(f()),
        }
    }
    pub fn or_default(self) -> &'a mut V
    where
        V: Default,
    {
        match self {
            Entry::Occupied(o) => o.into_mut(),
            Entry::Vacant(e) => e.insert(V::default()),
        }
    }
    pub fn and_modify<F: FnOnce(&mut V)>(mut self, f: F) -> Self {
        if let Entry::Occupied(ref mut o) = self {
            f(o.get_mut());
        }
        self
    }
}

pub struct Iter<'a, K, V> {
    it: SlotIter<'a, (K, V)>,
}
impl<'a, K, V> Iterator for Iter<'a, K, V> {
    type Item = (&'a K, &'a V);
    fn next(&mut self) -> Option<Self::Item> {
        match self.it.next() {
            Some(kv) => Some((&kv.0, &kv.1)),
            None => None,
        }
    }
    fn size_hint(&self) -> (usize, Option<usize>) {
        self.it.size_hint()
    }
}
impl<'a, K, V> DoubleEndedIterator for Iter<'a, K, V> {
    fn next_back(&mut self) -> Option<Self::Item> {
        match self.it.next_back() {
            Some(kv) => Some((&kv.0, &kv.1)),
            None => None,
        }
    }
}
impl<'a, K, V> ExactSizeIterator for Iter<'a, K, V> {}
impl<'a, K, V> Clone for Iter<'a, K, V> {
    fn clone(&self) -> Self {
        Iter { it: self.it.clone() }
    }
}
pub struct IterMut<'a, K, V> {
    it: SlotIterMut<'a, (K, V)>,
}
impl<'a, K, V> Iterator for IterMut<'a, K, V> {
    type Item = (&'a K, &'a mut V);
    fn next(&mut self) -> Option<Self::Item> {
        match self.it.next() {
            Some(kv) => Some((&kv.0, &mut kv.1)),
            None => None,
        }
    }
}
pub struct Keys<'a, K, V> {
    it: SlotIter<'a, (K, V)>,
}
impl<'a, K, V> Iterator for Keys<'a, K, V> {
    type Item = &'a K;
    fn next(&mut self) -> Option<Self::Item> {
        match self.it.next() {
            Some(kv) => Some(&kv.0),
            None => None,
        }
    }
    fn size_hint(&self) -> (usize, Option<usize>) {
        self.it.size_hint()
    }
}
impl<'a, K, V> DoubleEndedIterator for Keys<'a, K, V> {
    fn next_back(&mut self) -> Option<Self::Item> {
        match self.it.next_back() {
            Some(kv) => Some(&kv.0),
            None => None,
        }
    }
}
impl<'a, K, V> ExactSizeIterator for Keys<'a, K, V> {}
impl<'a, K, V> Clone for Keys<'a, K, V> {
    fn clone(&self) -> Self {
        Keys { it: self.it.clone() }
    }
}
pub struct Values<'a, K, V> {
    it: SlotIter<'a, (K, V)>,
}
impl<'a, K, V> Iterator for Values<'a, K, V> {
    type Item = &'a V;
    fn next(&mut self) -> Option<Self::Item> {
        match self.it.next() {
            Some(kv) => Some(&kv.1),
            None => None,
        }
    }
    fn size_hint(&self) -> (usize, Option<usize>) {
        self.it.size_hint()
    }
}
impl<'a, K, V> DoubleEndedIterator for Values<'a, K, V> {
    fn next_back(&mut self) -> Option<Self::Item> {
        match self.it.next_back() {
            Some(kv) => Some(&kv.1),
            None => None,
        }
    }
}
impl<'a, K, V> ExactSizeIterator for Values<'a, K, V> {}
pub struct ValuesMut<'a, K, V> {
    it: SlotIterMut<'a, (K, V)>,
}
impl<'a, K, V> Iterator for ValuesMut<'a, K, V> {
    type Item = &'a mut V;
    fn next(&mut self) -> Option<Self::Item> {
        match self.it.next() {
            Some(kv) => Some(&mut kv.1),
            None => None,
        }
    }
}

impl<K, V, S> IntoIterator for HashMap<K, V, S> {
    type Item = (K, V);
    type IntoIter = IntoIter<(K, V)>;
    fn into_iter(self) -> Self::IntoIter {
        self.items.into_iter()
    }
}
impl<'a, K, V, S> IntoIterator for &'a HashMap<K, V, S> {
    type Item = (&'a K, &'a V);
    type IntoIter = Iter<'a, K, V>;
    fn into_iter(self) -> Self::IntoIter {
        self.iter()
    }
}
impl<'a, K, V, S> IntoIterator for &'a mut HashMap<K, V, S> {
    type Item = (&'a K, &'a mut V);
    type IntoIter = IterMut<'a, K, V>;
    fn into_iter(self) -> Self::IntoIter {
        self.iter_mut()
    }
}
impl<K: Eq, V, S> FromIterator<(K, V)> for HashMap<K, V, S> {
    fn from_iter<I: IntoIterator<Item = (K, V)>>(it: I) -> Self {
        let mut m = HashMap { items: Slots::new(), _s: PhantomData };
        for (k, v) in it {
            m.insert(k, v);
        }
        m
    }
}
impl<K: Eq, V, S, const N: usize> From<[(K, V); N]> for HashMap<K, V, S> {
    fn from(a: [(K, V); N]) -> Self {
        a.into_iter().collect()
    }
}
impl<K, V, S> Default for HashMap<K, V, S> {
    fn default() -> Self {
        HashMap { items: Slots::new(), _s: PhantomData }
    }
}
impl<K: Clone, V: Clone, S> Clone for HashMap<K, V, S> {
    fn clone(&self) -> Self {
        HashMap { items: self.items.clone(), _s: PhantomData }
    }
}
impl<K: fmt::Debug, V: fmt::Debug, S> fmt::Debug for HashMap<K, V, S> {
    fn fmt(&self, f: &mut fmt::Formatter<'_>) -> fmt::Result {
        f.write_str("HashMap")
    }
}
impl<K: Eq, V: PartialEq, S> PartialEq for HashMap<K, V, S> {
    fn eq(&self, o: &Self) -> bool {
        if self.len() != o.len() {
            return false;
        }
        self.iter().all(|(k, v)| o.get(k).map_or(false, |w| v == w))
    }
}
impl<K: Eq, V: Eq, S> Eq for HashMap<K, V, S> {}
impl<K: Eq + Borrow<Q>, Q: ?Sized + Eq, V, S> Index<&Q> for HashMap<K, V, S> {
    type Output = V;
    fn index(&self, k: &Q) -> &V {
        self.get(k).expect("no entry found for key")
    }
}

// ------------------------------------------------------------------ HashSet
pub struct HashSet<T, S = RandomState> {
    pub items: Slots<T>,
    _s: PhantomData<S>,
}
impl<T> HashSet<T, RandomState> {
    pub fn new() -> Self {
        HashSet { items: Slots::new(), _s: PhantomData }
    }
    pub fn with_capacity(_n: usize) -> Self {
        Self::new()
    }
}
impl<T, S> HashSet<T, S> {
    pub fn len(&self) -> usize {
        self.items.len()
    }
    pub fn is_empty(&self) -> bool {
        self.items.len() == 0
    }
    pub fn clear(&mut self) {
        self.items.clear()
    }
    pub fn capacity(&self) -> usize {
        self.items.len()
    }
    pub fn reserve(&mut self, _n: usize) {}
    pub fn iter(&self) -> SlotIter<'_, T> {
        self.items.iter()
    }
    pub fn retain<F: FnMut(&T) -> bool>(&mut self, mut f: F) {
        self.items.retain_mut(|t| f(t))
    }
    pub fn drain(&mut self) -> IntoIter<T> {
        self.items.take_all()
    }
}
impl<T: Eq, S> HashSet<T, S> {
    fn pos<Q: ?Sized + Eq>(&self, k: &Q) -> Option<usize>
    where
        T: Borrow<Q>,
    {
        let mut i = 0;
        while i < CAP {
            if i < self.items.n {
                if let Some(t) = &self.items.a[i] {
                    if t.borrow() == k {
                        return Some(i);
                    }
                }
            }
            i += 1;
        }
        None
    }
    pub fn insert(&mut self, t: T) -> bool {
        if self.pos(&t).is_some() {
            false
        } else {
            self.items.push(t);
            true
        }
    }
    pub fn contains<Q: ?Sized + Eq>(&self, k: &Q) -> bool
    where
        T: Borrow<Q>,
    {
        self.pos(k).is_some()
    }
    pub fn get<Q: ?Sized + Eq>(&self, k: &Q) -> Option<&T>
    where
        T: Borrow<Q>,
    {
        match self.pos(k) {
            Some(i) => self.items.a[i].as_ref(),
            None => None,
        }
    }
    pub fn remove<Q: ?Sized + Eq>(&mut self, k: &Q) -> bool
    where
        T: Borrow<Q>,
    {
        match self.pos(k) {
            Some(i) => {
                self.items.remove_at(i);
                true
            }
            None => false,
        }
    }
    pub fn take<Q: ?Sized + Eq>(&mut self, k: &Q) -> Option<T>
    where
        T: Borrow<Q>,
    {
        match self.pos(k) {
            Some(i) => self.items.remove_at(i),
            None => None,
        }
    }
    pub fn extend<I: IntoIterator<Item = T>>(&mut self, it: I) {
        for t in it {
            self.insert(t);
        }
    }
    pub fn is_subset(&self, o: &Self) -> bool {
        self.iter().all(|t| o.contains(t))
    }
    pub fn intersection<'a>(&'a self, o: &'a Self) -> impl Iterator<Item = &'a T> + 'a {
        self.iter().filter(move |t| o.contains(*t))
    }
    pub fn difference<'a>(&'a self, o: &'a Self) -> impl Iterator<Item = &'a T> + 'a {
        self.iter().filter(move |t| !o.contains(*t))
    }
    pub fn union<'a>(&'a self, o: &'a Self) -> impl Iterator<Item = &'a T> + 'a {
        self.iter().chain(o.iter().filter(move |t| !self.contains(*t)))
    }
}
impl<T, S> IntoIterator for HashSet<T, S> {
    type Item = T;
    type IntoIter = IntoIter<T>;
    fn into_iter(self) -> Self::IntoIter {
        self.items.into_iter()
    }
}
impl<'a, T, S> IntoIterator for &'a HashSet<T, S> {
    type Item = &'a T;
    type IntoIter = SlotIter<'a, T>;
    fn into_iter(self) -> Self::IntoIter {
        self.items.iter()
    }
}
impl<T: Eq, S> FromIterator<T> for HashSet<T, S> {
    fn from_iter<I: IntoIterator<Item = T>>(it: I) -> Self {
        let mut s = HashSet { items: Slots::new(), _s: PhantomData };
        for t in it {
            s.insert(t);
        }
        s
    }
}
impl<T, S> Default for HashSet<T, S> {
    fn default() -> Self {
        HashSet { items: Slots::new(), _s: PhantomData }
    }
}
impl<T: Clone, S> Clone for HashSet<T, S> {
    fn clone(&self) -> Self {
        HashSet { items: self.items.clone(), _s: PhantomData }
    }
}
impl<T, S> fmt::Debug for HashSet<T, S> {
    fn fmt(&self, f: &mut fmt::Formatter<'_>) -> fmt::Result {
        f.write_str("HashSet")
    }
}
impl<T: Eq, S> PartialEq for HashSet<T, S> {
    fn eq(&self, o: &Self) -> bool {
        self.len() == o.len() && self.is_subset(o)
    }
}
impl<T: Eq, S> Eq for HashSet<T, S> {}

// ------------------------------------------------------------------ BTreeMap
pub struct BTreeMap<K, V> {
    pub items: Slots<(K, V)>, // sorted by key, unique
}
impl<K, V> BTreeMap<K, V> {
    pub fn new() -> Self {
        BTreeMap { items: Slots::new() }
    }
    pub fn len(&self) -> usize {
        self.items.len()
    }
    pub fn is_empty(&self) -> bool {
        self.items.len() == 0
    }
    pub fn clear(&mut self) {
        self.items.clear()
    }
    pub fn iter(&self) -> Iter<'_, K, V> {
        Iter { it: self.items.iter() }
    }
    pub fn iter_mut(&mut self) -> IterMut<'_, K, V> {
        IterMut { it: self.items.iter_mut() }
    }
    pub fn keys(&self) -> Keys<'_, K, V> {
        Keys { it: self.items.iter() }
    }
    pub fn values(&self) -> Values<'_, K, V> {
        Values { it: self.items.iter() }
    }
    pub fn values_mut(&mut self) -> ValuesMut<'_, K, V> {
        ValuesMut { it: self.items.iter_mut() }
    }
    pub fn first_key_value(&self) -> Option<(&K, &V)> {
        self.items.get(0).map(|kv| (&kv.0, &kv.1))
    }
    pub fn last_key_value(&self) -> Option<(&K, &V)> {
        let n = self.items.len();
        if n == 0 {
            None
        } else {
            self.items.get(n - 1).map(|kv| (&kv.0, &kv.1))
        }
    }
    pub fn retain<F: FnMut(&K, &mut V) -> bool>(&mut self, mut f: F) {
        self.items.retain_mut(|kv| f(&kv.0, &mut kv.1))
    }
}
impl<K: Ord, V> BTreeMap<K, V> {
    // first index whose key is >= k ; (idx, found)
    fn lb<Q: ?Sized + Ord>(&self, k: &Q) -> (usize, bool)
    where
        K: Borrow<Q>,
    {
        let mut i = 0;
        while i < CAP {
            if i >= self.items.n {
                return (i, false);
            }
            if let Some(kv) = &self.items.a[i] {
                match kv.0.borrow().cmp(k) {
                    std::cmp::Ordering::Less => {}
                    std::cmp::Ordering::Equal => return (i, true),
                    std::cmp::Ordering::Greater => return (i, false),
                }
            }
            i += 1;
        }
        (i, false)
    }
    pub fn insert(&mut self, k: K, v: V) -> Option<V> {
        let (i, found) = self.lb(&k);
        if found {
            Some(std::mem::replace(&mut self.items.a[i].as_mut().unwrap().1, v))
        } else {
            self.items.insert_at(i, (k, v));
            None
        }
    }
    pub fn get<Q: ?Sized + Ord>(&self, k: &Q) -> Option<&V>
    where
        K: Borrow<Q>,
    {
        let (i, found) = self.lb(k);
        if found {
            self.items.a[i].as_ref().map(|kv| &kv.1)
        } else {
            None
        }
    }
    pub fn get_mut<Q: ?Sized + Ord>(&mut self, k: &Q) -> Option<&mut V>
    where
        K: Borrow<Q>,
    {
        let (i, found) = self.lb(k);
        if found {
            self.items.a[i].as_mut().map(|kv| &mut kv.1)
        } else {
            None
        }
    }
    pub fn contains_key<Q: ?Sized + Ord>(&self, k: &Q) -> bool
    where
        K: Borrow<Q>,
    {
        self.lb(k).1
    }
    pub fn remove<Q: ?Sized + Ord>(&mut self, k: &Q) -> Option<V>
    where
        K: Borrow<Q>,
    {
        let (i, found) = self.lb(k);
        if found {
            self.items.remove_at(i).map(|kv| kv.1)
        } else {
            None
        }
    }
    pub fn range<Q: ?Sized + Ord, R: RangeBounds<Q>>(&self, r: R) -> Iter<'_, K, V>
    where
        K: Borrow<Q>,
    {
        let n = if self.items.n < CAP { self.items.n } else { CAP };
        let lo = match r.start_bound() {
            Bound::Unbounded => 0,
            Bound::Included(k) => self.lb(k).0,
            Bound::Excluded(k) => {
                let (i, f) = self.lb(k);
                if f {
                    i + 1
                } else {
                    i
                }
            }
        };
        let hi = match r.end_bound() {
            Bound::Unbounded => n,
            Bound::Included(k) => {
                let (i, f) = self.lb(k);
                if f {
                    i + 1
                } else {
                    i
                }
            }
            Bound::Excluded(k) => self.lb(k).0,
        };
        let hi = if hi < lo { lo } else { hi };
        Iter { it: self.items.iter_range(lo, hi) }
    }
    pub fn entry(&mut self, k: K) -> BEntry<'_, K, V> {
        let (i, found) = self.lb(&k);
        BEntry { map: self, idx: i, found, key: k }
    }
}
pub struct BEntry<'a, K, V> {
    map: &'a mut BTreeMap<K, V>,
    idx: usize,
    found: bool,
    key: K,
}
impl<'a, K, V> BEntry<'a, K, V> {
    pub fn or_insert_with<F: FnOnce() -> V>(self, f: F) -> &'a mut V {
        if !self.found {
            self.map.items.insert_at(self.idx, (self.key, f()));
        }
        &mut self.map.items.a[self.idx].as_mut().unwrap().1
    }
    pub fn or_insert(self, v: V) -> &'a mut V {
        self.or_insert_with(|| v)
    }
    pub fn or_default(self) -> &'a mut V
    where
        V: Default,
    {
        self.or_insert_with(V::default)
    }
}
impl<K, V> IntoIterator for BTreeMap<K, V> {
    type Item = (K, V);
    type IntoIter = IntoIter<(K, V)>;
    fn into_iter(self) -> Self::IntoIter {
        self.items.into_iter()
    }
}
impl<'a, K, V> IntoIterator for &'a BTreeMap<K, V> {
    type Item = (&'a K, &'a V);
    type IntoIter = Iter<'a, K, V>;
    fn into_iter(self) -> Self::IntoIter {
        self.iter()
    }
}
impl<K, V> Default for BTreeMap<K, V> {
    fn default() -> Self {
        Self::new()
    }
}
impl<K: Clone, V: Clone> Clone for BTreeMap<K, V> {
    fn clone(&self) -> Self {
        BTreeMap { items: self.items.clone() }
    }
}
impl<K, V> fmt::Debug for BTreeMap<K, V> {
    fn fmt(&self, f: &mut fmt::Formatter<'_>) -> fmt::Result {
        f.write_str("BTreeMap")
    }
}
impl<K: Ord, V> FromIterator<(K, V)> for BTreeMap<K, V> {
    fn from_iter<I: IntoIterator<Item = (K, V)>>(it: I) -> Self {
        let mut m = BTreeMap::new();
        for (k, v) in it {
            m.insert(k, v);
        }
        m
    }
}

// ------------------------------------------------------------------ VecDeque
pub struct VecDeque<T> {
    pub items: Slots<T>,
}
impl<T> VecDeque<T> {
    pub fn new() -> Self {
        VecDeque { items: Slots::new() }
    }
    pub fn with_capacity(_n: usize) -> Self {
        Self::new()
    }
    pub fn len(&self) -> usize {
        self.items.len()
    }
    pub fn is_empty(&self) -> bool {
        self.items.len() == 0
    }
    pub fn clear(&mut self) {
        self.items.clear()
    }
    pub fn capacity(&self) -> usize {
        self.items.len()
    }
    pub fn push_back(&mut self, t: T) {
        self.items.push(t)
    }
    pub fn push_front(&mut self, t: T) {
        self.items.insert_at(0, t)
    }
    pub fn pop_back(&mut self) -> Option<T> {
        let n = self.items.len();
        if n == 0 {
            None
        } else {
            self.items.remove_at(n - 1)
        }
    }
    pub fn pop_front(&mut self) -> Option<T> {
        self.items.remove_at(0)
    }
    pub fn front(&self) -> Option<&T> {
        self.items.get(0)
    }
    pub fn back(&self) -> Option<&T> {
        let n = self.items.len();
        if n == 0 {
            None
        } else {
            self.items.get(n - 1)
        }
    }
    pub fn front_mut(&mut self) -> Option<&mut T> {
        self.items.get_mut(0)
    }
    pub fn back_mut(&mut self) -> Option<&mut T> {
        let n = self.items.len();
        if n == 0 {
            None
        } else {
            self.items.get_mut(n - 1)
        }
    }
    pub fn get(&self, i: usize) -> Option<&T> {
        self.items.get(i)
    }
    pub fn get_mut(&mut self, i: usize) -> Option<&mut T> {
        self.items.get_mut(i)
    }
    pub fn iter(&self) -> SlotIter<'_, T> {
        self.items.iter()
    }
    pub fn iter_mut(&mut self) -> SlotIterMut<'_, T> {
        self.items.iter_mut()
    }
    pub fn remove(&mut self, i: usize) -> Option<T> {
        self.items.remove_at(i)
    }
    pub fn insert(&mut self, i: usize, t: T) {
        self.items.insert_at(i, t)
    }
    pub fn truncate(&mut self, n: usize) {
        self.items.truncate(n)
    }
    pub fn retain<F: FnMut(&T) -> bool>(&mut self, mut f: F) {
        self.items.retain_mut(|t| f(t))
    }
    pub fn drain<R: RangeBounds<usize>>(&mut self, r: R) -> IntoIter<T> {
        let (lo, hi) = bounds_of(&r, self.items.len());
        self.items.take_range(lo, hi)
    }
    pub fn range<R: RangeBounds<usize>>(&self, r: R) -> SlotIter<'_, T> {
        let (lo, hi) = bounds_of(&r, self.items.len());
        self.items.iter_range(lo, hi)
    }
    pub fn split_off(&mut self, at: usize) -> Self {
        let n = self.items.len();
        assert!(at <= n, "`at` out of bounds");
        let mut o = VecDeque::new();
        for t in self.items.take_range(at, n) {
            o.items.push(t);
        }
        o
    }
    pub fn extend<I: IntoIterator<Item = T>>(&mut self, it: I) {
        for t in it {
            self.items.push(t);
        }
    }
    pub fn append(&mut self, o: &mut Self) {
        for t in o.items.take_all() {
            self.items.push(t);
        }
    }
    pub fn contains(&self, t: &T) -> bool
    where
        T: PartialEq,
    {
        self.iter().any(|x| x == t)
    }
    pub fn swap(&mut self, i: usize, j: usize) {
        self.items.swap(i, j)
    }
    pub fn reserve(&mut self, _n: usize) {}
    pub fn shrink_to_fit(&mut self) {}
}
impl<T> Index<usize> for VecDeque<T> {
    type Output = T;
    fn index(&self, i: usize) -> &T {
        self.items.get(i).expect("Out of bounds access")
    }
}
impl<T> IndexMut<usize> for VecDeque<T> {
    fn index_mut(&mut self, i: usize) -> &mut T {
        self.items.get_mut(i).expect("Out of bounds access")
    }
}
impl<T> IntoIterator for VecDeque<T> {
    type Item = T;
    type IntoIter = IntoIter<T>;
    fn into_iter(self) -> Self::IntoIter {
        self.items.into_iter()
    }
}
impl<'a, T> IntoIterator for &'a VecDeque<T> {
    type Item = &'a T;
    type IntoIter = SlotIter<'a, T>;
    fn into_iter(self) -> Self::IntoIter {
        self.items.iter()
    }
}
impl<'a, T> IntoIterator for &'a mut VecDeque<T> {
    type Item = &'a mut T;
    type IntoIter = SlotIterMut<'a, T>;
    fn into_iter(self) -> Self::IntoIter {
        self.items.iter_mut()
    }
}
impl<T> FromIterator<T> for VecDeque<T> {
    fn from_iter<I: IntoIterator<Item = T>>(it: I) -> Self {
        let mut d = VecDeque::new();
        for t in it {
            d.items.push(t);
        }
        d
    }
}
impl<T> From<Vec<T>> for VecDeque<T> {
    fn from(v: Vec<T>) -> Self {
        v.into_iter().collect()
    }
}
impl<T> From<VecDeque<T>> for Vec<T> {
    fn from(v: VecDeque<T>) -> Self {
        v.items.into_iter().collect()
    }
}
impl<T> Default for VecDeque<T> {
    fn default() -> Self {
        Self::new()
    }
}
impl<T: Clone> Clone for VecDeque<T> {
    fn clone(&self) -> Self {
        VecDeque { items: self.items.clone() }
    }
}
impl<T> fmt::Debug for VecDeque<T> {
    fn fmt(&self, f: &mut fmt::Formatter<'_>) -> fmt::Result {
        f.write_str("VecDeque")
    }
}
impl<T: PartialEq> PartialEq for VecDeque<T> {
    fn eq(&self, o: &Self) -> bool {
        if self.len() != o.len() {
            return false;
        }
        let mut i = 0;
        while i < CAP {
            if i < self.items.n && self.items.a[i] != o.items.a[i] {
                return false;
            }
            i += 1;
        }
        true
    }
}
impl<T: Eq> Eq for VecDeque<T> {}
