// Overlay for src/storage/rdb.rs: C09 (RDB round trip) and C10 (loader totality, allocation
// obligation, writer fault propagation).  Child module of rdb.rs => sees RdbWriter/RdbReader.
// Engine states are built/observed through the inherent `vr_*` helpers of ovl_rdb_engine.rs.
#![allow(dead_code, unused)]
use super::*;
use crate::storage::skiplist::SkipList;
use crate::storage::stream::{Stream, StreamId};
use crate::storage::value::StoredValue;
use crate::verif_common::*;
use crate::verif_std::{HashSet, VecDeque};
use std::mem::ManuallyDrop;
use std::panic::catch_unwind;
use std::time::Instant;

// ---------------------------------------------------------------- I/O instantiations
// RdbWriter<W: Write> / RdbReader<R: Read> are generic; the harnesses instantiate W with a
// fixed-capacity stack buffer (positions stay concrete for CBMC) and R with `&[u8]`.
pub struct BufW<const N: usize> {
    pub buf: [u8; N],
    pub n: usize,
    pub calls: usize,
}
impl<const N: usize> BufW<N> {
    pub fn new() -> Self {
        BufW { buf: [0u8; N], n: 0, calls: 0 }
    }
}
impl<const N: usize> Write for BufW<N> {
    fn write(&mut self, d: &[u8]) -> io::Result<usize> {
        self.calls += 1;
        let mut i = 0;
        while i < d.len() {
            assert!(self.n < N, "harness shape: output buffer too small");
            self.buf[self.n] = d[i];
            self.n += 1;
            i += 1;
        }
        Ok(d.len())
    }
    fn flush(&mut self) -> io::Result<()> {
        Ok(())
    }
}

/// Stub for RdbReader::read_exact: the same body minus the error *text* (io::Error's Display
/// machinery does not fit into CBMC; error wording is not part of any property).
fn read_exact_nofmt<R: Read>(this: &mut RdbReader<R>, buf: &mut [u8]) -> Result<()> {
    match this.reader.read_exact(buf) {
        Ok(()) => Ok(()),
        Err(e) => {
            std::mem::forget(e);
            Err(FerrousError::Io(String::new()))
        }
    }
}

// ---------------------------------------------------------------- C09 (a) length codec
fn len_codec(n: usize) -> (usize, Result<usize>, bool) {
    let mut w = RdbWriter::new(BufW::<8>::new());
    let r = w.write_length(n);
    assert!(r.is_ok(), "write_length into memory cannot fail");
    let used = w.writer.n;
    assert!(w.bytes_written == used as u64, "bytes_written counts what was written");
    let mut rd = RdbReader::new(&w.writer.buf[..used]);
    let got = rd.read_length();
    let all = rd.reader.is_empty();
    std::mem::forget(r);
    (used, got, all)
}

#[kani::proof]
#[kani::unwind(10)]
#[kani::stub(alloc::fmt::format, fmt_stub)]
#[kani::stub(RdbReader::read_exact, read_exact_nofmt)]
fn c09_lencodec_u32() {
    let n: usize = kani::any();
    kani::assume(n <= u32::MAX as usize);
    let (used, got, all) = len_codec(n);
    assert!(used == if n <= 63 { 1 } else if n <= 16383 { 2 } else { 5 }, "encoding width per boundary");
    match &got {
        Ok(m) => assert!(*m == n, "read_length(write_length(n)) == n"),
        Err(_) => assert!(false, "a written length must be readable"),
    }
    assert!(all, "read_length consumes exactly the bytes written");
    kani::cover!(n == 63, "n = 63");
    kani::cover!(n == 64, "n = 64");
    kani::cover!(n == 16383, "n = 16383");
    kani::cover!(n == 16384, "n = 16384");
    kani::cover!(n == 65536, "n = 65536");
    kani::cover!(n == u32::MAX as usize, "n = 2^32-1");
    std::mem::forget(got);
}

/// region R: n >= 2^32 (a value or collection with 4Gi or more bytes/elements)
#[kani::proof]
#[kani::unwind(10)]
#[kani::stub(alloc::fmt::format, fmt_stub)]
#[kani::stub(RdbReader::read_exact, read_exact_nofmt)]
fn c09_lencodec_ge4g_kf() {
    let n: usize = kani::any();
    kani::assume(n > u32::MAX as usize);
    let (_used, got, all) = len_codec(n);
    kani::cover!(true, "reached");
    match &got {
        Ok(m) => assert!(*m == n, "read_length(write_length(n)) == n"),
        Err(_) => assert!(false, "a written length must be readable"),
    }
    std::mem::forget(got);
}

// ---------------------------------------------------------------- C09 (b) string codec
fn string_rt<const L: usize>() {
    let p: [u8; L] = kani::any();
    let mut w = RdbWriter::new(BufW::<8>::new());
    let r = w.write_string(&p);
    assert!(r.is_ok(), "write_string into memory cannot fail");
    std::mem::forget(r);
    let used = w.writer.n;
    assert!(used == L + 1, "one length byte + payload");
    let mut rd = RdbReader::new(&w.writer.buf[..used]);
    let got = ManuallyDrop::new(rd.read_string());
    match &*got {
        Ok(v) => assert!(bytes_eq(v, &p), "read_string(write_string(p)) == p"),
        Err(_) => assert!(false, "a written string must be readable"),
    }
    assert!(rd.reader.is_empty(), "read_string consumes exactly the bytes written");
}

#[kani::proof]
#[kani::unwind(10)]
#[kani::stub(alloc::fmt::format, fmt_stub)]
#[kani::stub(RdbReader::read_exact, read_exact_nofmt)]
fn c09_strcodec_0to3() {
    string_rt::<0>();
    string_rt::<1>();
    string_rt::<2>();
    string_rt::<3>();
    kani::cover!(true, "reached");
}

// ---------------------------------------------------------------- C09 (c) one record per value type
/// `Arc<StorageEngine>` whose ArcInner lives on the harness stack.  The reader takes
/// `&Arc<StorageEngine>` and only dereferences it; with a real `Arc::new` the engine struct is
/// moved to the heap and CBMC no longer folds its fields (measured: one set_string 867k steps and
/// out of memory, against 40k steps / 14 s with the engine on the stack).  Layout = std's
/// `#[repr(C)] ArcInner { strong, weak, data }`; the Arc is never dropped.
#[repr(C)]
pub struct StackArc<T> {
    strong: std::sync::atomic::AtomicUsize,
    weak: std::sync::atomic::AtomicUsize,
    data: T,
}
impl<T> StackArc<T> {
    pub fn new(data: T) -> Self {
        StackArc { strong: std::sync::atomic::AtomicUsize::new(1), weak: std::sync::atomic::AtomicUsize::new(1), data }
    }
    pub fn arc(&self) -> ManuallyDrop<Arc<T>> {
        ManuallyDrop::new(unsafe { Arc::from_raw(&self.data as *const T) })
    }
}
macro_rules! mk_store {
    ($st:ident) => {
        let __inner = ManuallyDrop::new(StackArc::new(StorageEngine::vr_new1()));
        let $st = __inner.arc();
    };
}

/// writer side of one key: exactly what write_snapshot does per key
fn save_record<const N: usize>(key: &[u8], v: &Value, ttl: Option<Duration>) -> BufW<N> {
    let mut w = RdbWriter::new(BufW::<N>::new());
    let r = w.write_key_value(key, v, ttl);
    assert!(r.is_ok(), "write_key_value into memory cannot fail");
    std::mem::forget(r);
    assert!(w.bytes_written == w.writer.n as u64, "bytes_written counts what was written");
    w.writer
}

/// reader side of one key without expiry prefix: exactly the `_` arm of load_into's dispatch.
/// The type byte read from the record is asserted to be OP and the literal OP is passed on (CBMC
/// does not fold the byte read back through the reader; with a symbolic type byte every arm of
/// read_key_value_with_type would be explored with payload bytes interpreted as lengths).
fn load_record<const OP: u8>(bytes: &[u8], st: &Arc<StorageEngine>) {
    let mut rd = RdbReader::new(bytes);
    let op = match rd.read_byte() {
        Ok(b) => b,
        Err(e) => {
            std::mem::forget(e);
            assert!(false, "record has no type byte");
            return;
        }
    };
    assert!(op == OP, "type byte written for this value type");
    assert!(OP < 0xFA, "type byte collides with a control opcode");
    let r = ManuallyDrop::new(rd.read_key_value_with_type(st, 0, OP, None));
    assert!(r.is_ok(), "a written record must load");
    assert!(rd.reader.is_empty(), "the record is consumed exactly");
}

macro_rules! rdb_harness {
    ($(#[$m:meta])* fn $name:ident() $body:block) => {
        #[kani::proof]
        #[kani::stub(alloc::fmt::format, fmt_stub)]
        #[kani::stub(RdbReader::read_exact, read_exact_nofmt)]
        #[kani::stub(std::time::Instant::now, crate::verif_common::now_fixed)]
        #[kani::stub(catch_unwind, cu_stub)]
        $(#[$m])*
        fn $name() $body
    };
}

fn no_ttl(st: &Arc<StorageEngine>, k: &[u8]) {
    assert!(st.vr_index(0, k).is_none(), "no sweeper index entry for a key saved without TTL");
}

rdb_harness! {
#[kani::unwind(6)]
fn c09_rec_string() {
    let k: [u8; 1] = kani::any();
    let p: [u8; 2] = kani::any();
    let v = ManuallyDrop::new(Value::String(p.to_vec()));
    let out = save_record::<16>(&k, &v, None);
    mk_store!(st);
    load_record::<0>(&out.buf[..out.n], &st);
    st.vr_with(0, &k, |sv| match sv {
        Some(StoredValue { value: Value::String(b), metadata }) => {
            assert!(bytes_eq(b, &p), "string value restored");
            assert!(metadata.expires_at.is_none(), "no TTL invented");
        }
        _ => assert!(false, "key absent or of another type after load"),
    });
    no_ttl(&st, &k);
    kani::cover!(true, "reached");
}
}

rdb_harness! {
#[kani::unwind(6)]
fn c09_rec_list() {
    let k: [u8; 1] = kani::any();
    let e: [u8; 2] = kani::any();
    let mut l = VecDeque::new();
    l.push_back(vec![e[0]]);
    l.push_back(vec![e[1]]);
    let v = ManuallyDrop::new(Value::List(l));
    let out = save_record::<16>(&k, &v, None);
    mk_store!(st);
    load_record::<1>(&out.buf[..out.n], &st);
    st.vr_with(0, &k, |sv| match sv {
        Some(StoredValue { value: Value::List(l2), metadata }) => {
            assert!(l2.len() == 2, "list length restored");
            assert!(bytes_eq(&l2[0], &e[0..1]) && bytes_eq(&l2[1], &e[1..2]), "list elements restored in order");
            assert!(metadata.expires_at.is_none(), "no TTL invented");
        }
        _ => assert!(false, "key absent or of another type after load"),
    });
    no_ttl(&st, &k);
    kani::cover!(e[0] == e[1], "duplicate elements");
}
}

rdb_harness! {
#[kani::unwind(6)]
fn c09_rec_set() {
    let k: [u8; 1] = kani::any();
    let e: [u8; 2] = kani::any();
    kani::assume(e[0] != e[1]); // a set holds distinct members
    let mut s = HashSet::new();
    s.insert(vec![e[0]]);
    s.insert(vec![e[1]]);
    let v = ManuallyDrop::new(Value::Set(s));
    let out = save_record::<16>(&k, &v, None);
    mk_store!(st);
    load_record::<2>(&out.buf[..out.n], &st);
    st.vr_with(0, &k, |sv| match sv {
        Some(StoredValue { value: Value::Set(s2), metadata }) => {
            assert!(s2.len() == 2, "set cardinality restored");
            assert!(s2.contains(&e[0..1]) && s2.contains(&e[1..2]), "set members restored");
            assert!(metadata.expires_at.is_none(), "no TTL invented");
        }
        _ => assert!(false, "key absent or of another type after load"),
    });
    no_ttl(&st, &k);
    kani::cover!(true, "reached");
}
}

rdb_harness! {
#[kani::unwind(6)]
fn c09_rec_hash() {
    let k: [u8; 1] = kani::any();
    let f: [u8; 2] = kani::any();
    let x: [u8; 2] = kani::any();
    kani::assume(f[0] != f[1]); // a hash holds distinct fields
    let mut h = HashMap::new();
    h.insert(vec![f[0]], vec![x[0]]);
    h.insert(vec![f[1]], vec![x[1]]);
    let v = ManuallyDrop::new(Value::Hash(h));
    let out = save_record::<16>(&k, &v, None);
    mk_store!(st);
    load_record::<4>(&out.buf[..out.n], &st);
    st.vr_with(0, &k, |sv| match sv {
        Some(StoredValue { value: Value::Hash(h2), metadata }) => {
            assert!(h2.len() == 2, "hash size restored");
            match (h2.get(&f[0..1]), h2.get(&f[1..2])) {
                (Some(a), Some(b)) => assert!(bytes_eq(a, &x[0..1]) && bytes_eq(b, &x[1..2]), "hash values restored"),
                _ => assert!(false, "hash field lost"),
            }
            assert!(metadata.expires_at.is_none(), "no TTL invented");
        }
        _ => assert!(false, "key absent or of another type after load"),
    });
    no_ttl(&st, &k);
    kani::cover!(x[0] == x[1], "equal values");
}
}

