// Overlay for src/storage/rdb.rs: C09 (RDB round trip) and C10 (loader totality, allocation
// obligation, writer fault propagation).  Child module of rdb.rs => sees RdbWriter/RdbReader.
// Engine states are built/observed through the inherent `vr_*` helpers of ovl_rdb_engine.rs.
#![allow(dead_code, unused)]
use super::*;
use crate::storage::skiplist::SkipList;
use crate::storage::stream::{Stream, StreamId};
use crate::storage::value::StoredValue;
use crate::verif_common::*;
use crate::verif_std::{HashSet, VecDeque};
use std::mem::ManuallyDrop;
use std::panic::catch_unwind;
use std::time::Instant;

// ---------------------------------------------------------------- I/O instantiations
// RdbWriter<W: Write> / RdbReader<R: Read> are generic; the harnesses instantiate W with a
// fixed-capacity stack buffer (positions stay concrete for CBMC) and R with `&[u8]`.
pub struct BufW<const N: usize> {
    pub buf: [u8; N],
    pub n: usize,
    pub calls: usize,
}
impl<const N: usize> BufW<N> {
    pub fn new() -> Self {
        BufW { buf: [0u8; N], n: 0, calls: 0 }
    }
}
impl<const N: usize> Write for BufW<N> {
    fn write(&mut self, d: &[u8]) -> io::Result<usize> {
        self.calls += 1;
        let mut i = 0;
        while i < d.len() {
            assert!(self.n < N, "harness shape: output buffer too small");
            self.buf[self.n] = d[i];
            self.n += 1;
            i += 1;
        }
        Ok(d.len())
    }
    fn flush(&mut self) -> io::Result<()> {
        Ok(())
    }
}

/// Stub for RdbReader::read_exact: the same body minus the error *text* (io::Error's Display
/// machinery does not fit into CBMC; error wording is not part of any property).
fn read_exact_nofmt<R: Read>(this: &mut RdbReader<R>, buf: &mut [u8]) -> Result<()> {
    match this.reader.read_exact(buf) {
        Ok(()) => Ok(()),
        Err(e) => {
            std::mem::forget(e);
            Err(FerrousError::Io(String::new()))
        }
    }
}

// ---------------------------------------------------------------- C09 (a) length codec
fn len_codec(n: usize) -> (usize, Result<usize>, bool) {
    let mut w = RdbWriter::new(BufW::<8>::new());
    let r = w.write_length(n);
    assert!(r.is_ok(), "write_length into memory cannot fail");
    let used = w.writer.n;
    assert!(w.bytes_written == used as u64, "bytes_written counts what was written");
    let mut rd = RdbReader::new(&w.writer.buf[..used]);
    let got = rd.read_length();
    let all = rd.reader.is_empty();
    std::mem::forget(r);
    (used, got, all)
}

#[kani::proof]
#[kani::unwind(10)]
#[kani::stub(alloc::fmt::format, fmt_stub)]
#[kani::stub(RdbReader::read_exact, read_exact_nofmt)]
fn c09_lencodec_u32() {
    let n: usize = kani::any();
    kani::assume(n <= u32::MAX as usize);
    let (used, got, all) = len_codec(n);
    assert!(used == if n <= 63 { 1 } else if n <= 16383 { 2 } else { 5 }, "encoding width per boundary");
    match &got {
        Ok(m) => assert!(*m == n, "read_length(write_length(n)) == n"),
        Err(_) => assert!(false, "a written length must be readable"),
    }
    assert!(all, "read_length consumes exactly the bytes written");
    kani::cover!(n == 63, "n = 63");
    kani::cover!(n == 64, "n = 64");
    kani::cover!(n == 16383, "n = 16383");
    kani::cover!(n == 16384, "n = 16384");
    kani::cover!(n == 65536, "n = 65536");
    kani::cover!(n == u32::MAX as usize, "n = 2^32-1");
    std::mem::forget(got);
}

/// region R: n >= 2^32 (a value or collection with 4Gi or more bytes/elements)
#[kani::proof]
#[kani::unwind(10)]
#[kani::stub(alloc::fmt::format, fmt_stub)]
#[kani::stub(RdbReader::read_exact, read_exact_nofmt)]
fn c09_lencodec_ge4g_kf() {
    let n: usize = kani::any();
    kani::assume(n > u32::MAX as usize);
    let (_used, got, all) = len_codec(n);
    kani::cover!(true, "reached");
    match &got {
        Ok(m) => assert!(*m == n, "read_length(write_length(n)) == n"),
        Err(_) => assert!(false, "a written length must be readable"),
    }
    std::mem::forget(got);
}

// ---------------------------------------------------------------- C09 (b) string codec
fn string_rt<const L: usize>() {
    let p: [u8; L] = kani::any();
    let mut w = RdbWriter::new(BufW::<8>::new());
    let r = w.write_string(&p);
    assert!(r.is_ok(), "write_string into memory cannot fail");
    std::mem::forget(r);
    let used = w.writer.n;
    assert!(used == L + 1, "one length byte + payload");
    let mut rd = RdbReader::new(&w.writer.buf[..used]);
    let got = ManuallyDrop::new(rd.read_string());
    match &*got {
        Ok(v) => assert!(bytes_eq(v, &p), "read_string(write_string(p)) == p"),
        Err(_) => assert!(false, "a written string must be readable"),
    }
    assert!(rd.reader.is_empty(), "read_string consumes exactly the bytes written");
}

#[kani::proof]
#[kani::unwind(10)]
#[kani::stub(alloc::fmt::format, fmt_stub)]
#[kani::stub(RdbReader::read_exact, read_exact_nofmt)]
fn c09_strcodec_0to3() {
    string_rt::<0>();
    string_rt::<1>();
    string_rt::<2>();
    string_rt::<3>();
    kani::cover!(true, "reached");
}

/// Same round trip in group "rdbchunk", where the reader's chunk size (64 KiB in the source) is
/// shrunk to 2 bytes in the scratch copy: 3- and 5-byte strings then take the multi-chunk path
/// (first chunk adopted, later chunks appended, last chunk short) that real strings longer than
/// 64 KiB take.
#[kani::proof]
#[kani::unwind(10)]
#[kani::stub(alloc::fmt::format, fmt_stub)]
#[kani::stub(RdbReader::read_exact, read_exact_nofmt)]
fn c09_strcodec_chunked() {
    string_rt::<2>();
    string_rt::<3>();
    string_rt::<5>();
    kani::cover!(true, "reached");
}

// ---------------------------------------------------------------- C09 (c) one record per value type
/// `Arc<StorageEngine>` whose ArcInner lives on the harness stack.  The reader takes
/// `&Arc<StorageEngine>` and only dereferences it; with a real `Arc::new` the engine struct is
/// moved to the heap and CBMC no longer folds its fields (measured: one set_string 867k steps and
/// out of memory, against 40k steps / 14 s with the engine on the stack).  Layout = std's
/// `#[repr(C)] ArcInner { strong, weak, data }`; the Arc is never dropped.
#[repr(C)]
pub struct StackArc<T> {
    strong: std::sync::atomic::AtomicUsize,
    weak: std::sync::atomic::AtomicUsize,
    data: T,
}
impl<T> StackArc<T> {
    pub fn new(data: T) -> Self {
        StackArc { strong: std::sync::atomic::AtomicUsize::new(1), weak: std::sync::atomic::AtomicUsize::new(1), data }
    }
    pub fn arc(&self) -> ManuallyDrop<Arc<T>> {
        ManuallyDrop::new(unsafe { Arc::from_raw(&self.data as *const T) })
    }
}
macro_rules! mk_store {
    ($st:ident) => {
        let __inner = ManuallyDrop::new(StackArc::new(StorageEngine::vr_new1()));
        let $st = __inner.arc();
    };
}

/// writer side of one key: exactly what write_snapshot does per key
fn save_record<const N: usize>(key: &[u8], v: &Value, ttl: Option<Duration>) -> BufW<N> {
    let mut w = RdbWriter::new(BufW::<N>::new());
    let r = w.write_key_value(key, v, ttl);
    assert!(r.is_ok(), "write_key_value into memory cannot fail");
    std::mem::forget(r);
    assert!(w.bytes_written == w.writer.n as u64, "bytes_written counts what was written");
    w.writer
}

/// reader side of one key without expiry prefix: exactly the `_` arm of load_into's dispatch.
/// The type byte read from the record is asserted to be OP and the literal OP is passed on (CBMC
/// does not fold the byte read back through the reader; with a symbolic type byte every arm of
/// read_key_value_with_type would be explored with payload bytes interpreted as lengths).
fn load_record<const OP: u8>(bytes: &[u8], st: &Arc<StorageEngine>) {
    let mut rd = RdbReader::new(bytes);
    let op = match rd.read_byte() {
        Ok(b) => b,
        Err(e) => {
            std::mem::forget(e);
            assert!(false, "record has no type byte");
            return;
        }
    };
    assert!(op == OP, "type byte written for this value type");
    assert!(OP < 0xFA, "type byte collides with a control opcode");
    let r = ManuallyDrop::new(rd.read_key_value_with_type(st, 0, OP, None));
    assert!(r.is_ok(), "a written record must load");
    assert!(rd.reader.is_empty(), "the record is consumed exactly");
}

macro_rules! rdb_harness {
    ($(#[$m:meta])* fn $name:ident() $body:block) => {
        #[kani::proof]
        #[kani::stub(alloc::fmt::format, fmt_stub)]
        #[kani::stub(RdbReader::read_exact, read_exact_nofmt)]
        #[kani::stub(std::time::Instant::now, crate::verif_common::now_fixed)]
        #[kani::stub(catch_unwind, cu_stub)]
        $(#[$m])*
        fn $name() $body
    };
}

fn no_ttl(st: &Arc<StorageEngine>, k: &[u8]) {
    assert!(st.vr_index(0, k).is_none(), "no sweeper index entry for a key saved without TTL");
}

rdb_harness! {
#[kani::unwind(6)]
fn c09_rec_string() {
    let k: [u8; 1] = kani::any();
    let p: [u8; 2] = kani::any();
    let v = ManuallyDrop::new(Value::String(p.to_vec()));
    let out = save_record::<16>(&k, &v, None);
    mk_store!(st);
    load_record::<0>(&out.buf[..out.n], &st);
    st.vr_with(0, &k, |sv| match sv {
        Some(StoredValue { value: Value::String(b), metadata }) => {
            assert!(bytes_eq(b, &p), "string value restored");
            assert!(metadata.expires_at.is_none(), "no TTL invented");
        }
        _ => assert!(false, "key absent or of another type after load"),
    });
    no_ttl(&st, &k);
    kani::cover!(true, "reached");
}
}

rdb_harness! {
#[kani::unwind(6)]
fn c09_e2e_list() {
    // end to end through the REAL engine (two chained rpush operations: expensive)
    let k: [u8; 1] = kani::any();
    let e: [u8; 2] = kani::any();
    let mut l = VecDeque::new();
    l.push_back(vec![e[0]]);
    l.push_back(vec![e[1]]);
    let v = ManuallyDrop::new(Value::List(l));
    let out = save_record::<16>(&k, &v, None);
    mk_store!(st);
    load_record::<1>(&out.buf[..out.n], &st);
    st.vr_with(0, &k, |sv| match sv {
        Some(StoredValue { value: Value::List(l2), metadata }) => {
            assert!(l2.len() == 2, "list length restored");
            assert!(bytes_eq(&l2[0], &e[0..1]) && bytes_eq(&l2[1], &e[1..2]), "list elements restored in order");
            assert!(metadata.expires_at.is_none(), "no TTL invented");
        }
        _ => assert!(false, "key absent or of another type after load"),
    });
    no_ttl(&st, &k);
    kani::cover!(e[0] == e[1], "duplicate elements");
}
}

// ---------------------------------------------------------------- engine call recorder
// For the container types the reader rebuilds a value through SEVERAL engine operations on heap
// state (rpush per element, zadd per member, ...), which CBMC cannot chain within memory.  In the
// harnesses below the engine operations called by the reader are replaced by recording stubs: the
// harness decides that the reader issues exactly the calls that rebuild the saved value (same key,
// same elements, same order, same scores bit for bit, expire(key, ttl) last and only if a TTL was
// given).  What those operations do to an engine is the subject of the engine-level properties.
const RMAX: usize = 6;
const ILEN: usize = 26;
#[derive(Clone, Copy)]
struct Rec {
    calls: usize,
    kind: u8, // 0 none, then the ASCII tag of the first value call
    mixed: bool, // value calls of different kinds, wrong db or wrong key
    n: usize,
    item: [[u8; ILEN]; RMAX],
    item_len: [usize; RMAX],
    score: [u64; RMAX],
    id: [(u64, u64); RMAX],
    nfields: [usize; RMAX],
    expire_calls: usize,
    expire_at_call: usize,
    ttl: (u64, u32),
    fail_at: usize, // engine call number that returns Err (0 = never)
}
static mut REC: Rec = Rec {
    calls: 0, kind: 0, mixed: false, n: 0, item: [[0; ILEN]; RMAX], item_len: [0; RMAX], score: [0; RMAX],
    id: [(0, 0); RMAX], nfields: [0; RMAX], expire_calls: 0, expire_at_call: 0, ttl: (0, 0), fail_at: 0,
};
static mut EXP_KEY: u8 = 0;

fn rec_call(kind: u8, db: usize, key: &[u8]) -> bool {
    unsafe {
        REC.calls += 1;
        if REC.kind == 0 {
            REC.kind = kind;
        }
        if REC.kind != kind || db != 0 || key.len() != 1 || key[0] != EXP_KEY {
            REC.mixed = true;
        }
        REC.fail_at != 0 && REC.calls == REC.fail_at
    }
}
fn rec_item(v: &[u8]) {
    unsafe {
        assert!(REC.n < RMAX && v.len() <= ILEN, "harness shape: recorder capacity");
        let i = REC.n;
        let mut j = 0;
        while j < v.len() {
            REC.item[i][j] = v[j];
            j += 1;
        }
        REC.item_len[i] = v.len();
        REC.n += 1;
    }
}
fn rec_err<T>() -> Result<T> {
    Err(FerrousError::Storage(crate::error::StorageError::WrongType))
}
fn rec_set_string(_e: &StorageEngine, db: usize, key: Vec<u8>, value: Vec<u8>) -> Result<()> {
    let f = rec_call(b's', db, &key);
    rec_item(&value);
    std::mem::forget(key);
    std::mem::forget(value);
    if f { rec_err() } else { Ok(()) }
}
fn rec_set_string_ex(_e: &StorageEngine, db: usize, key: Vec<u8>, value: Vec<u8>, ttl: Duration) -> Result<()> {
    let f = rec_call(b's', db, &key);
    rec_item(&value);
    unsafe {
        REC.expire_calls += 1;
        REC.expire_at_call = REC.calls;
        REC.ttl = (ttl.as_secs(), ttl.subsec_nanos());
    }
    std::mem::forget(key);
    std::mem::forget(value);
    if f { rec_err() } else { Ok(()) }
}
fn rec_rpush(_e: &StorageEngine, db: usize, key: Vec<u8>, elements: Vec<Vec<u8>>) -> Result<usize> {
    let f = rec_call(b'l', db, &key);
    let mut i = 0;
    while i < elements.len() {
        rec_item(&elements[i]);
        i += 1;
    }
    std::mem::forget(key);
    std::mem::forget(elements);
    if f { rec_err() } else { Ok(0) }
}
fn rec_sadd(_e: &StorageEngine, db: usize, key: Vec<u8>, members: Vec<Vec<u8>>) -> Result<usize> {
    let f = rec_call(b'S', db, &key);
    let mut i = 0;
    while i < members.len() {
        rec_item(&members[i]);
        i += 1;
    }
    std::mem::forget(key);
    std::mem::forget(members);
    if f { rec_err() } else { Ok(0) }
}
fn rec_hset(_e: &StorageEngine, db: usize, key: Vec<u8>, fvs: Vec<(Vec<u8>, Vec<u8>)>) -> Result<usize> {
    let f = rec_call(b'h', db, &key);
    let mut i = 0;
    while i < fvs.len() {
        rec_item(&fvs[i].0);
        rec_item(&fvs[i].1);
        i += 1;
    }
    std::mem::forget(key);
    std::mem::forget(fvs);
    if f { rec_err() } else { Ok(0) }
}
fn rec_zadd(_e: &StorageEngine, db: usize, key: Vec<u8>, member: Vec<u8>, score: f64) -> Result<bool> {
    let f = rec_call(b'z', db, &key);
    unsafe {
        if REC.n < RMAX {
            REC.score[REC.n] = score.to_bits();
        }
    }
    rec_item(&member);
    std::mem::forget(key);
    std::mem::forget(member);
    if f { rec_err() } else { Ok(true) }
}
fn rec_xadd_with_id(_e: &StorageEngine, db: usize, key: Vec<u8>, id: StreamId, fields: HashMap<Vec<u8>, Vec<u8>>) -> Result<StreamId> {
    let f = rec_call(b'x', db, &key);
    unsafe {
        if REC.n < RMAX {
            REC.id[REC.n] = (id.millis(), id.seq());
            REC.nfields[REC.n] = fields.len();
        }
    }
    // entry marker item (empty), then field, value pairs in map iteration order
    rec_item(&[]);
    for (fk, fv) in fields.iter() {
        rec_item(fk);
        rec_item(fv);
    }
    std::mem::forget(key);
    std::mem::forget(fields);
    if f { rec_err() } else { Ok(id) }
}
fn rec_expire(_e: &StorageEngine, db: usize, key: &[u8], ttl: Duration) -> Result<bool> {
    unsafe {
        REC.calls += 1;
        if db != 0 || key.len() != 1 || key[0] != EXP_KEY {
            REC.mixed = true;
        }
        REC.expire_calls += 1;
        REC.expire_at_call = REC.calls;
        REC.ttl = (ttl.as_secs(), ttl.subsec_nanos());
        if REC.fail_at != 0 && REC.calls == REC.fail_at { rec_err() } else { Ok(true) }
    }
}
fn item_is(i: usize, v: &[u8]) -> bool {
    unsafe { REC.item_len[i] == v.len() && bytes_eq(&REC.item[i][..v.len()], v) }
}

macro_rules! rec_harness {
    ($(#[$m:meta])* fn $name:ident() $body:block) => {
        rdb_harness! {
            #[kani::stub(StorageEngine::set_string, rec_set_string)]
            #[kani::stub(StorageEngine::set_string_ex, rec_set_string_ex)]
            #[kani::stub(StorageEngine::rpush, rec_rpush)]
            #[kani::stub(StorageEngine::sadd, rec_sadd)]
            #[kani::stub(StorageEngine::hset, rec_hset)]
            #[kani::stub(StorageEngine::zadd, rec_zadd)]
            #[kani::stub(StorageEngine::xadd_with_id, rec_xadd_with_id)]
            #[kani::stub(StorageEngine::expire, rec_expire)]
            $(#[$m])*
            fn $name() $body
        }
    };
}

/// an arbitrary TTL as read_key_value_with_expiry may pass it on
fn any_ttl() -> Option<Duration> {
    if kani::any() {
        let ms: u64 = kani::any();
        Some(Duration::from_millis(ms))
    } else {
        None
    }
}

/// reader side with recorder: type byte asserted, then read_key_value_with_type with `ttl`
fn load_record_rec<const OP: u8>(bytes: &[u8], st: &Arc<StorageEngine>, key: u8, ttl: Option<Duration>, value_calls: usize) {
    unsafe {
        EXP_KEY = key;
    }
    let mut rd = RdbReader::new(bytes);
    let op = match rd.read_byte() {
        Ok(b) => b,
        Err(e) => {
            std::mem::forget(e);
            assert!(false, "record has no type byte");
            return;
        }
    };
    assert!(op == OP, "type byte written for this value type");
    let r = ManuallyDrop::new(rd.read_key_value_with_type(st, 0, OP, ttl));
    assert!(r.is_ok(), "a written record must load");
    assert!(rd.reader.is_empty(), "the record is consumed exactly");
    unsafe {
        assert!(!REC.mixed, "every engine call targets db 0, the saved key, one value type");
        match ttl {
            None => {
                assert!(REC.expire_calls == 0, "no TTL invented");
                assert!(REC.calls == value_calls, "number of engine calls");
            }
            Some(d) => {
                assert!(REC.expire_calls == 1, "TTL applied exactly once");
                assert!(REC.ttl == (d.as_secs(), d.subsec_nanos()), "TTL passed on unchanged");
                assert!(REC.expire_at_call == REC.calls, "TTL applied by the last engine call (after the value exists)");
                assert!(REC.calls == value_calls + 1, "number of engine calls");
            }
        }
    }
}

rec_harness! {
#[kani::unwind(6)]
fn c09_rec_list() {
    let k: u8 = kani::any();
    let e: [u8; 2] = kani::any();
    let mut l = VecDeque::new();
    l.push_back(vec![e[0]]);
    l.push_back(vec![e[1]]);
    let v = ManuallyDrop::new(Value::List(l));
    let out = save_record::<16>(&[k], &v, None);
    mk_store!(st);
    let ttl = any_ttl();
    load_record_rec::<1>(&out.buf[..out.n], &st, k, ttl, 2);
    unsafe {
        assert!(REC.kind == b'l' && REC.n == 2, "two elements appended by rpush");
        assert!(item_is(0, &e[0..1]) && item_is(1, &e[1..2]), "list elements restored in order");
    }
    kani::cover!(e[0] == e[1], "duplicate elements");
    kani::cover!(ttl.is_some(), "with TTL");
}
}

rec_harness! {
#[kani::unwind(6)]
fn c09_rec_set() {
    let k: u8 = kani::any();
    let e: [u8; 3] = kani::any();
    // two members, distinct by construction (lengths 1 and 2)
    let mut s = HashSet::new();
    s.insert(vec![e[0]]);
    s.insert(vec![e[1], e[2]]);
    let v = ManuallyDrop::new(Value::Set(s));
    let out = save_record::<16>(&[k], &v, None);
    mk_store!(st);
    let ttl = any_ttl();
    load_record_rec::<2>(&out.buf[..out.n], &st, k, ttl, 1);
    unsafe {
        assert!(REC.kind == b'S' && REC.n == 2, "one sadd with two members");
        assert!((item_is(0, &e[0..1]) && item_is(1, &e[1..3])) || (item_is(1, &e[0..1]) && item_is(0, &e[1..3])), "set members restored");
    }
    kani::cover!(ttl.is_some(), "with TTL");
}
}

rec_harness! {
#[kani::unwind(6)]
fn c09_rec_hash() {
    let k: u8 = kani::any();
    let f: [u8; 3] = kani::any();
    let x: [u8; 2] = kani::any();
    // two fields, distinct by construction (lengths 1 and 2)
    let mut h = HashMap::new();
    h.insert(vec![f[0]], vec![x[0]]);
    h.insert(vec![f[1], f[2]], vec![x[1]]);
    let v = ManuallyDrop::new(Value::Hash(h));
    let out = save_record::<16>(&[k], &v, None);
    mk_store!(st);
    let ttl = any_ttl();
    load_record_rec::<4>(&out.buf[..out.n], &st, k, ttl, 1);
    unsafe {
        assert!(REC.kind == b'h' && REC.n == 4, "one hset with two pairs");
        let a = item_is(0, &f[0..1]) && item_is(1, &x[0..1]) && item_is(2, &f[1..3]) && item_is(3, &x[1..2]);
        let b = item_is(2, &f[0..1]) && item_is(3, &x[0..1]) && item_is(0, &f[1..3]) && item_is(1, &x[1..2]);
        assert!(a || b, "hash pairs restored");
    }
    kani::cover!(x[0] == x[1], "equal values");
    kani::cover!(ttl.is_some(), "with TTL");
}
}

// ---------------------------------------------------------------- C09 (d) TTL across save/load
#[repr(C)]
#[derive(Clone, Copy)]
struct RawTs {
    s: i64,
    ns: u32,
    pad: u32,
}
static mut WALL: (i64, u32) = (1_700_000_000, 0);
/// Stub for `SystemTime::now`: wall clock set by the harness (Linux SystemTime = Timespec{i64,u32})
fn wall_now() -> SystemTime {
    unsafe { std::mem::transmute::<RawTs, SystemTime>(RawTs { s: WALL.0, ns: WALL.1, pad: 0 }) }
}
fn set_wall(s: i64, ns: u32) {
    unsafe {
        WALL = (s, ns);
    }
}
fn any_wall() -> (i64, u32) {
    let s: i64 = kani::any();
    let ns: u32 = kani::any();
    kani::assume(s >= 0 && s < (1i64 << 40) && ns < 1_000_000_000);
    (s, ns)
}
fn ms_of(s: i64, ns: u32) -> u64 {
    (s as u64) * 1000 + (ns / 1_000_000) as u64
}

static mut RK_CALLS: usize = 0;
static mut RK_TYPE: u8 = 0;
static mut RK_TTL: Option<Duration> = None;
/// recording stub for RdbReader::read_key_value_with_type (the per-type arms have their own harnesses)
fn rec_rkvt<R: Read>(_this: &mut RdbReader<R>, _st: &Arc<StorageEngine>, db: usize, value_type: u8, ttl: Option<Duration>) -> Result<()> {
    unsafe {
        RK_CALLS += 1;
        RK_TYPE = value_type;
        RK_TTL = ttl;
        assert!(db == 0, "record loaded into the selected database");
    }
    Ok(())
}

/// wall clock in ms exactly as std converts it (same expression as in the code under test, so
/// that CBMC shares the division circuits instead of having to prove two dividers equivalent)
fn wall_ms() -> u64 {
    wall_now().duration_since(UNIX_EPOCH).unwrap().as_millis() as u64
}

/// Save a string key with a TTL at wall time T_save, load it at wall time T_load >= T_save.
/// Returns (expiry_ms written, now_ms at load).
/// Writer spec: deadline_ms = floor(T_save in ms) + floor(ttl in ms).  Arithmetic consequence (not
/// re-proved by the solver): exact deadline - 2 ms < deadline_ms <= exact deadline.
fn ttl_roundtrip() -> (u64, u64) {
    let k: u8 = kani::any();
    let p: u8 = kani::any();
    let (s1, n1) = any_wall();
    let ttl_s: u64 = kani::any();
    let ttl_n: u32 = kani::any();
    kani::assume(ttl_s < (1u64 << 40) && ttl_n < 1_000_000_000);
    let ttl = Duration::new(ttl_s, ttl_n);
    set_wall(s1, n1);
    let save_ms = wall_ms();
    let v = ManuallyDrop::new(Value::String(vec![p]));
    let out = save_record::<32>(&[k], &v, Some(ttl));
    assert!(out.buf[0] == 0xFC, "expiry opcode precedes the record");
    let mut eb = [0u8; 8];
    let mut i = 0;
    while i < 8 {
        eb[i] = out.buf[1 + i];
        i += 1;
    }
    let expiry_ms = u64::from_le_bytes(eb);
    assert!(expiry_ms == save_ms + ttl.as_millis() as u64, "saved deadline (wall-clock ms, little endian) = save time + TTL");
    assert!(out.buf[9] == 0, "string type byte follows the deadline");
    // loader at T_load
    let (s2, n2) = any_wall();
    kani::assume(s2 > s1 || (s2 == s1 && n2 >= n1));
    set_wall(s2, n2);
    let now_ms = wall_ms();
    mk_store!(st);
    let mut rd = RdbReader::new(&out.buf[..out.n]);
    let op = rd.read_byte();
    assert!(matches!(op, Ok(0xFC)), "expiry opcode read back");
    std::mem::forget(op);
    let e = match rd.read_u64_le() {
        Ok(e) => e,
        Err(x) => {
            std::mem::forget(x);
            assert!(false, "deadline unreadable");
            0
        }
    };
    assert!(e == expiry_ms, "deadline read back unchanged");
    let r = ManuallyDrop::new(rd.read_key_value_with_expiry(&st, 0, e));
    assert!(r.is_ok(), "record with expiry loads");
    (expiry_ms, now_ms)
}

rdb_harness! {
#[kani::unwind(10)]
#[kani::stub(std::time::SystemTime::now, wall_now)]
#[kani::stub(RdbReader::read_key_value_with_type, rec_rkvt)]
fn c09_ttl_future_rest() {
    let (expiry_ms, now_ms) = ttl_roundtrip();
    kani::assume(expiry_ms > now_ms); // region: deadline still in the future at load time
    unsafe {
        assert!(RK_CALLS == 1 && RK_TYPE == 0, "the string record is loaded once");
        // remaining TTL = saved deadline - load time, in ms (multiplication-only formulation)
        let x = expiry_ms - now_ms;
        match RK_TTL {
            Some(d) => {
                let m = x.wrapping_sub(d.as_secs().wrapping_mul(1000));
                assert!(m < 1000 && d.subsec_nanos() as u64 == m * 1_000_000, "remaining TTL = saved deadline - load time (ms)");
            }
            None => assert!(false, "TTL lost"),
        }
    }
    kani::cover!(expiry_ms == now_ms + 1, "1 ms left");
    kani::cover!(expiry_ms > now_ms + 1_000_000, "long TTL");
}
}

rdb_harness! {
#[kani::unwind(10)]
#[kani::stub(std::time::SystemTime::now, wall_now)]
#[kani::stub(RdbReader::read_key_value_with_type, rec_rkvt)]
fn c09_ttl_elapsed_kf() {
    let (expiry_ms, now_ms) = ttl_roundtrip();
    kani::assume(expiry_ms <= now_ms); // region R: the deadline passed while the server was down
    kani::cover!(true, "reached");
    unsafe {
        // absent after the restart: either not loaded at all or loaded with a deadline that is not in the future
        let zero = match RK_TTL {
            Some(d) => d.as_secs() == 0 && d.subsec_nanos() == 0,
            None => false,
        };
        assert!(RK_CALLS == 0 || zero, "a key whose deadline passed during downtime must not be loaded as a persistent key");
    }
}
}

// ================================================================ C10
// ---------------------------------------------------------------- allocation obligation
// "never an allocation sized by corrupt length fields": `vec![elem; n]` (alloc::vec::from_elem) and
// Vec::with_capacity are wrapped; the wrapper compares n with the number of bytes present in the
// input.  CHECK mode (c10_alloc_*): asserts n <= bytes present.  MODEL mode (totality harnesses):
// builds the vector with a concrete size per case (a symbolic-size allocation does not fit into
// CBMC) and, for n > bytes present, returns a vector longer than the whole input, so that the
// following read_exact fails exactly as it does in the real code (Err, input drained).
static mut ALLOC_LIMIT: usize = 0;
static mut ALLOC_SEEN: bool = false;
static mut ALLOC_CHECK: bool = false;
const TOTAL_MAX: usize = 8; // no totality harness feeds more than TOTAL_MAX symbolic bytes to read_string
fn from_elem_wrapped<T: Clone>(elem: T, n: usize) -> Vec<T> {
    unsafe {
        ALLOC_SEEN = true;
        if ALLOC_CHECK {
            // the loader reads long strings in chunks: a single allocation may be as large as the
            // bytes present or one 64 KiB chunk, never as large as an (unchecked) length field
            assert!(n <= ALLOC_LIMIT || n <= 64 * 1024, "allocation sized by a length field larger than the bytes present");
        }
    }
    let mut k = 0;
    while k <= TOTAL_MAX {
        if n == k || k == TOTAL_MAX {
            let mut v = Vec::new();
            let mut j = 0;
            while j < k {
                v.push(elem.clone());
                j += 1;
            }
            return v;
        }
        k += 1;
    }
    Vec::new()
}
fn with_capacity_wrapped<T>(n: usize) -> Vec<T> {
    unsafe {
        ALLOC_SEEN = true;
        if ALLOC_CHECK {
            assert!(n <= ALLOC_LIMIT, "reservation sized by a length field larger than the bytes present");
        }
    }
    Vec::new()
}

rdb_harness! {
#[kani::unwind(14)]
#[kani::stub(alloc::vec::from_elem, from_elem_wrapped)]
#[kani::stub(std::vec::Vec::with_capacity, with_capacity_wrapped)]
fn c10_alloc_read_string_kf() {
    // a string header of up to 5 bytes (1-, 2- or 5-byte length encoding) and nothing else
    let data: [u8; 5] = kani::any();
    unsafe {
        ALLOC_LIMIT = data.len();
        ALLOC_CHECK = true;
    }
    let mut rd = RdbReader::new(&data[..]);
    let r = ManuallyDrop::new(rd.read_string());
    kani::cover!(unsafe { ALLOC_SEEN }, "allocation site reached");
}
}

// ---------------------------------------------------------------- loader totality
// Arbitrary bytes, every prefix length (truncated files): Ok or Err; Kani's own checks decide
// "no panic, no overflow, no out-of-bounds"; unwinding assertions decide "no hang".
// Decomposition (a symbolic-length vector per string does not fit into CBMC when several strings
// are read in a loop):
//   c10_total_read_string : REAL read_string / read_length on arbitrary bytes; contract: Ok(v) =>
//                           the header and exactly v.len() <= bytes-present payload bytes were
//                           consumed; Err => nothing is returned.
//   c10_total_<type>      : REAL read_key_value_with_type with read_string replaced by a contract
//                           stub that consumes exactly like read_string (same Ok/Err, same reader
//                           position) and returns a 1-byte vector (first payload byte, 0 if empty).  In the
//                           string/set/hash/zset arms and the non-stream list arm string contents
//                           are only handed to engine operations (stubs here); the one place where
//                           content steers control flow, the stream-marker branch of the list arm,
//                           has its own harness with the real read_string (c10_total_stream).
//   c10_loop_trunc    : REAL load_into loop with the per-record function stubbed (Ok or Err).
static mut T_CALLS: usize = 0;
static mut T_FAIL_AT: usize = 0;
fn t_res<T>(ok: T) -> Result<T> {
    unsafe {
        T_CALLS += 1;
        if T_FAIL_AT != 0 && T_CALLS == T_FAIL_AT {
            return Err(FerrousError::Storage(crate::error::StorageError::WrongType));
        }
    }
    Ok(ok)
}
fn t_set_string(_e: &StorageEngine, _db: usize, key: Vec<u8>, value: Vec<u8>) -> Result<()> {
    std::mem::forget((key, value));
    t_res(())
}
fn t_set_string_ex(_e: &StorageEngine, _db: usize, key: Vec<u8>, value: Vec<u8>, _ttl: Duration) -> Result<()> {
    std::mem::forget((key, value));
    t_res(())
}
fn t_rpush(_e: &StorageEngine, _db: usize, key: Vec<u8>, elements: Vec<Vec<u8>>) -> Result<usize> {
    std::mem::forget((key, elements));
    t_res(0)
}
fn t_sadd(_e: &StorageEngine, _db: usize, key: Vec<u8>, members: Vec<Vec<u8>>) -> Result<usize> {
    std::mem::forget((key, members));
    t_res(0)
}
fn t_hset(_e: &StorageEngine, _db: usize, key: Vec<u8>, fvs: Vec<(Vec<u8>, Vec<u8>)>) -> Result<usize> {
    std::mem::forget((key, fvs));
    t_res(0)
}
fn t_zadd(_e: &StorageEngine, _db: usize, key: Vec<u8>, member: Vec<u8>, _score: f64) -> Result<bool> {
    std::mem::forget((key, member));
    t_res(true)
}
fn t_xadd_with_id(_e: &StorageEngine, _db: usize, key: Vec<u8>, id: StreamId, fields: HashMap<Vec<u8>, Vec<u8>>) -> Result<StreamId> {
    std::mem::forget((key, fields));
    t_res(id)
}
fn t_expire(_e: &StorageEngine, _db: usize, _key: &[u8], _ttl: Duration) -> Result<bool> {
    t_res(true)
}

/// contract stub for read_string (see above)
fn read_string_contract<R: Read>(this: &mut RdbReader<R>) -> Result<Vec<u8>> {
    let len = this.read_length()?;
    let mut first = 0u8;
    let mut i = 0usize;
    while i < len {
        let b = this.read_byte()?; // fails as soon as the input is exhausted, as read_exact does
        if i == 0 {
            first = b;
        }
        i += 1;
    }
    Ok(vec![first]) // always one byte (0 for an empty payload): a concrete length keeps the marker comparison decidable
}

macro_rules! total_harness {
    (#[kani::unwind($u:expr)] $(#[kani::stub($a:path, $b:path)])* fn $name:ident() $body:block) => {
        #[kani::proof]
        #[kani::unwind($u)]
        #[kani::stub(alloc::fmt::format, fmt_stub)]
        #[kani::stub(RdbReader::read_exact, read_exact_nofmt)]
        #[kani::stub(std::time::Instant::now, crate::verif_common::now_fixed)]
        #[kani::stub(catch_unwind, cu_stub)]
        #[kani::stub(StorageEngine::set_string, t_set_string)]
        #[kani::stub(StorageEngine::set_string_ex, t_set_string_ex)]
        #[kani::stub(StorageEngine::rpush, t_rpush)]
        #[kani::stub(StorageEngine::sadd, t_sadd)]
        #[kani::stub(StorageEngine::hset, t_hset)]
        #[kani::stub(StorageEngine::zadd, t_zadd)]
        #[kani::stub(StorageEngine::xadd_with_id, t_xadd_with_id)]
        #[kani::stub(StorageEngine::expire, t_expire)]
        #[kani::stub(alloc::vec::from_elem, from_elem_wrapped)]
        #[kani::stub(std::vec::Vec::with_capacity, with_capacity_wrapped)]
        #[kani::stub(std::time::SystemTime::now, wall_now)]
        $(#[kani::stub($a, $b)])*
        fn $name() $body
    };
}

total_harness! {
#[kani::unwind(10)]
fn c10_total_read_string() {
    let data: [u8; 7] = kani::any();
    let n: usize = kani::any();
    kani::assume(n <= 7);
    unsafe {
        ALLOC_LIMIT = n;
        ALLOC_CHECK = false;
    }
    let mut rd = RdbReader::new(&data[..n]);
    let r = ManuallyDrop::new(rd.read_string());
    let left = rd.reader.len();
    match &*r {
        Ok(v) => {
            let hdr = if data[0] >> 6 == 0 { 1 } else if data[0] >> 6 == 1 { 2 } else { 5 };
            assert!(left <= n && n - left == hdr + v.len(), "Ok: header and exactly v.len() payload bytes consumed");
            let mut i = 0;
            while i < v.len() {
                assert!(v[i] == data[hdr + i], "Ok: payload bytes returned verbatim");
                i += 1;
            }
        }
        Err(_) => assert!(left <= n, "Err: reader position within the input"),
    }
    kani::cover!(matches!(&*r, Ok(v) if v.len() == 3), "3-byte string read");
    kani::cover!(r.is_err(), "truncated string refused");
}
}

fn total_record<const N: usize>(op: u8) {
    let data: [u8; N] = kani::any();
    let n: usize = kani::any();
    kani::assume(n <= N);
    let fail_at: usize = kani::any();
    kani::assume(fail_at <= 3);
    unsafe {
        ALLOC_LIMIT = n;
        ALLOC_CHECK = false;
        T_FAIL_AT = fail_at;
    }
    let db: usize = kani::any();
    mk_store!(st);
    let mut rd = RdbReader::new(&data[..n]);
    let ttl = any_ttl();
    let r = ManuallyDrop::new(rd.read_key_value_with_type(&st, db, op, ttl));
    kani::cover!(r.is_ok(), "some record loads");
    kani::cover!(r.is_err(), "some input is refused");
    assert!(rd.reader.len() <= n, "reader position within the input");
    if n == 0 {
        assert!(r.is_err(), "empty input is an error, not a silent success");
    }
}

total_harness! {
#[kani::unwind(10)]
fn c10_total_string() { total_record::<6>(0); }
}
total_harness! {
#[kani::unwind(7)]
#[kani::stub(RdbReader::read_string, read_string_contract)]
fn c10_total_set() { total_record::<5>(2); }
}
total_harness! {
#[kani::unwind(13)]
#[kani::stub(RdbReader::read_string, read_string_contract)]
fn c10_total_zset() { total_record::<11>(3); }
}
total_harness! {
#[kani::unwind(7)]
#[kani::stub(RdbReader::read_string, read_string_contract)]
fn c10_total_hash() { total_record::<5>(4); }
}

fn cut_read_string<R: Read>(_this: &mut RdbReader<R>) -> Result<Vec<u8>> {
    assert!(false, "a value-type arm was entered for an unknown type byte");
    Err(FerrousError::Io(String::new()))
}
total_harness! {
#[kani::unwind(6)]
#[kani::stub(RdbReader::read_string, cut_read_string)]
fn c10_total_badtype() {
    let op: u8 = kani::any();
    kani::assume(op > 5);
    let data: [u8; 4] = kani::any();
    mk_store!(st);
    let mut rd = RdbReader::new(&data[..]);
    let r = ManuallyDrop::new(rd.read_key_value_with_type(&st, 0, op, None));
    kani::cover!(true, "reached");
    assert!(r.is_err(), "unknown value type is an error");
    assert!(unsafe { T_CALLS } == 0, "nothing is stored for an unknown value type");
}
}

// ---------------------------------------------------------------- load_into dispatch loop
static mut D_CALLS: usize = 0;
/// stub for the per-record function inside the dispatch harness: consumes nothing, Ok or Err
fn d_rkvt<R: Read>(_this: &mut RdbReader<R>, _st: &Arc<StorageEngine>, _db: usize, _value_type: u8, _ttl: Option<Duration>) -> Result<()> {
    unsafe {
        D_CALLS += 1;
    }
    if kani::any() { Ok(()) } else { Err(FerrousError::Io(String::new())) }
}
fn d_header<R: Read>(_this: &mut RdbReader<R>) -> Result<()> {
    Ok(())
}
total_harness! {
#[kani::unwind(5)]
#[kani::stub(RdbReader::read_string, read_string_contract)]
#[kani::stub(RdbReader::read_key_value_with_type, d_rkvt)]
#[kani::stub(RdbReader::read_header, d_header)]
fn c10_loop_trunc() {
    let data: [u8; 3] = kani::any();
    let n: usize = kani::any();
    kani::assume(n <= 3);
    let (s, ns) = any_wall();
    set_wall(s, ns);
    mk_store!(st);
    let mut rd = RdbReader::new(&data[..n]);
    let r = ManuallyDrop::new(rd.load_into(&st));
    // a file without the EOF opcode + 8 checksum bytes is never reported as loaded
    assert!(r.is_err(), "at most 3 bytes after the header cannot hold EOF + checksum: load must fail, not succeed silently");
    kani::cover!(unsafe { D_CALLS } >= 2, "two records dispatched");
}
}
total_harness! {
#[kani::unwind(11)]
#[kani::stub(RdbReader::read_string, read_string_contract)]
#[kani::stub(RdbReader::read_key_value_with_type, d_rkvt)]
#[kani::stub(RdbReader::read_header, d_header)]
fn c10_loop_eof() {
    // [one arbitrary opcode byte + 1 operand byte] then EOF + checksum: the loop ends with Ok exactly at EOF
    let x: [u8; 2] = kani::any();
    let c: [u8; 8] = kani::any();
    let data = [x[0], x[1], 0xFF, c[0], c[1], c[2], c[3], c[4], c[5], c[6], c[7]];
    let (s, ns) = any_wall();
    set_wall(s, ns);
    mk_store!(st);
    let mut rd = RdbReader::new(&data[..]);
    let r = ManuallyDrop::new(rd.load_into(&st));
    kani::cover!(r.is_ok(), "file accepted");
    kani::cover!(r.is_err(), "file refused");
    if r.is_ok() {
        assert!(rd.reader.len() <= 8, "Ok only after an EOF opcode was consumed");
    }
}
}

// ---------------------------------------------------------------- C10 (g) writer under faults
pub struct FailW {
    calls: usize,
    fail_at: usize,
    failed: bool,
    after_fail: usize,
    bytes: u64,
}
impl Write for FailW {
    fn write(&mut self, d: &[u8]) -> io::Result<usize> {
        if self.failed {
            self.after_fail += 1;
        }
        self.calls += 1;
        if self.calls == self.fail_at {
            self.failed = true;
            return Err(io::Error::from(io::ErrorKind::Other));
        }
        self.bytes += d.len() as u64;
        Ok(d.len())
    }
    /// whole buffers are accepted, so write_all is one write call (std's default write_all would
    /// additionally decode the error representation for ErrorKind::Interrupted, which CBMC cannot
    /// do on the bit-packed io::Error after a path merge)
    fn write_all(&mut self, d: &[u8]) -> io::Result<()> {
        if d.is_empty() {
            return Ok(());
        }
        match self.write(d) {
            Ok(_) => Ok(()),
            Err(e) => Err(e),
        }
    }
    fn flush(&mut self) -> io::Result<()> {
        Ok(())
    }
}
fn fail_writer(max_calls: usize) -> RdbWriter<FailW> {
    let fail_at: usize = kani::any();
    kani::assume(fail_at <= max_calls + 1); // 0 = never fails
    RdbWriter::new(FailW { calls: 0, fail_at, failed: false, after_fail: 0, bytes: 0 })
}
fn fault_post(w: &RdbWriter<FailW>, r: &io::Result<()>, total_calls: usize) {
    if w.writer.failed {
        assert!(r.is_err(), "a failed write is reported as Err by the record writer");
        assert!(w.writer.after_fail == 0, "no write is attempted after a failed one");
    } else {
        assert!(r.is_ok(), "no fault, no error");
        assert!(w.writer.calls == total_calls, "number of write calls of a complete record");
    }
    assert!(w.bytes_written == w.writer.bytes, "bytes_written counts exactly the bytes accepted by the sink");
    kani::cover!(w.writer.failed && w.writer.calls == total_calls, "fault at the last write");
    kani::cover!(!w.writer.failed, "no fault");
}

rdb_harness! {
#[kani::unwind(6)]
fn c10_wfault_list() {
    let e: [u8; 2] = kani::any();
    let mut l = VecDeque::new();
    l.push_back(vec![e[0]]);
    l.push_back(vec![e[1]]);
    let v = ManuallyDrop::new(Value::List(l));
    let mut w = fail_writer(8);
    let r = ManuallyDrop::new(w.write_key_value(b"k", &v, None));
    fault_post(&w, &r, 8); // type, keylen, key, count, (len, payload) x 2
}
}

rdb_harness! {
#[kani::unwind(6)]
fn c10_wfault_hash() {
    let f: [u8; 2] = kani::any();
    let mut h = HashMap::new();
    h.insert(vec![f[0]], vec![f[1]]);
    let v = ManuallyDrop::new(Value::Hash(h));
    let mut w = fail_writer(8);
    let r = ManuallyDrop::new(w.write_key_value(b"k", &v, None));
    fault_post(&w, &r, 8); // type, keylen, key, count, (len, field), (len, value)
}
}

rdb_harness! {
#[kani::unwind(10)]
#[kani::stub(std::time::SystemTime::now, wall_now)]
fn c10_wfault_string_ttl() {
    let p: [u8; 2] = kani::any();
    let v = ManuallyDrop::new(Value::String(p.to_vec()));
    let ms: u32 = kani::any();
    let mut w = fail_writer(7);
    let r = ManuallyDrop::new(w.write_key_value(b"k", &v, Some(Duration::from_millis(ms as u64))));
    fault_post(&w, &r, 7); // 0xFC, deadline, type, keylen, key, len, payload
}
}

rdb_harness! {
#[kani::unwind(10)]
fn c10_wfault_frame() {
    // the framing records of write_snapshot around the keys: selector, resize hint, EOF, checksum
    let db: usize = kani::any();
    kani::assume(db < 16);
    let nkeys: usize = kani::any();
    kani::assume(nkeys < 64);
    let mut w = fail_writer(6);
    let mut r: io::Result<()> = w.write_db_selector(db);
    if r.is_ok() {
        r = w.write_resize_db(nkeys, nkeys);
    }
    if r.is_ok() {
        r = w.write_eof();
    }
    if r.is_ok() {
        r = w.write_checksum();
    }
    let r = ManuallyDrop::new(r);
    fault_post(&w, &r, 7); // FE db, FB n n, FF, checksum
}
}

// ---------------------------------------------------------------- C09 (e) list starting with the stream marker
rec_harness! {
#[kani::unwind(28)]
fn c09_list_marker_kf() {
    // region R: a LIST whose first element equals the internal stream marker (concrete 25 bytes)
    let k: u8 = kani::any();
    let mut l = VecDeque::new();
    l.push_back(b"__FERROUS_STREAM_MARKER__".to_vec());
    let v = ManuallyDrop::new(Value::List(l));
    let out = save_record::<40>(&[k], &v, None);
    mk_store!(st);
    kani::cover!(out.n == 30, "record written: type, key, count 1, 25-byte element");
    load_record_rec::<1>(&out.buf[..out.n], &st, k, None, 1);
    unsafe {
        assert!(REC.kind == b'l' && REC.n == 1 && item_is(0, b"__FERROUS_STREAM_MARKER__"), "the list is restored as a list with its element");
    }
}
}
