// Engine-side helper overlay for the RDB harnesses (C09/C10), appended to src/storage/engine.rs.
// The RDB harnesses live in ovl_rdb.rs (child of rdb.rs) and cannot see the private fields of the
// engine; the builders/observers below are inherent `pub fn`s (visible crate-wide) written in a
// child module of engine.rs (so that *they* can see the private fields).  No engine operation is
// involved in any of them: states are built and observed directly.
#![allow(dead_code, unused)]
use super::*;
use crate::storage::value::{StringEncoding, ValueMetadata};
use crate::verif_common::*;

fn vr_shard() -> Arc<RwLock<DatabaseShard>> {
    Arc::new(RwLock::new(DatabaseShard {
        data: HashMap::new(),
        expiring_keys: HashMap::new(),
        watch_tracker: ShardWatchTracker::new(),
    }))
}

fn vr_db() -> Database {
    let shards = if SHARDS_PER_DATABASE == 1 {
        vec![vr_shard()]
    } else if SHARDS_PER_DATABASE == 2 {
        vec![vr_shard(), vr_shard()]
    } else {
        vec![
            vr_shard(), vr_shard(), vr_shard(), vr_shard(), vr_shard(), vr_shard(), vr_shard(), vr_shard(),
            vr_shard(), vr_shard(), vr_shard(), vr_shard(), vr_shard(), vr_shard(), vr_shard(), vr_shard(),
        ]
    };
    assert!(shards.len() == SHARDS_PER_DATABASE);
    Database { shards }
}

impl StorageEngine {
    /// engine with one database, built directly: no sweeper thread, unlimited memory
    pub fn vr_new1() -> StorageEngine {
        StorageEngine {
            databases: vec![vr_db()],
            memory_manager: Arc::new(MemoryManager::unlimited()),
            expiration_handle: None,
        }
    }
    /// engine with two databases
    pub fn vr_new2() -> StorageEngine {
        StorageEngine {
            databases: vec![vr_db(), vr_db()],
            memory_manager: Arc::new(MemoryManager::unlimited()),
            expiration_handle: None,
        }
    }

    /// direct pre-state construction
    pub fn vr_put(&self, db: usize, key: &[u8], value: Value, expires_at: Option<Instant>) {
        let t0 = mk_instant(T0_S, 0);
        let shard = self.get_shard(db, key).ok().unwrap();
        let mut g = shard.write().unwrap();
        g.data.insert(
            key.to_vec(),
            StoredValue {
                value,
                metadata: ValueMetadata { expires_at, created_at: t0, last_accessed: t0, encoding: StringEncoding::Raw },
            },
        );
        if let Some(t) = expires_at {
            g.expiring_keys.insert(key.to_vec(), t);
        }
    }

    /// direct observation of one key (no engine operation, no expiry filtering)
    pub fn vr_with<R, F: FnOnce(Option<&StoredValue>) -> R>(&self, db: usize, key: &[u8], f: F) -> R {
        let shard = self.get_shard(db, key).ok().unwrap();
        let g = shard.read().unwrap();
        f(g.data.get(key))
    }

    /// the sweeper index entry of a key
    pub fn vr_index(&self, db: usize, key: &[u8]) -> Option<Instant> {
        let shard = self.get_shard(db, key).ok().unwrap();
        let g = shard.read().unwrap();
        g.expiring_keys.get(key).cloned()
    }

    /// number of keys stored in a database (all shards, expired or not)
    pub fn vr_nkeys(&self, db: usize) -> usize {
        let mut n = 0;
        let mut i = 0;
        while i < SHARDS_PER_DATABASE {
            n += self.databases[db].shards[i].read().unwrap().data.len();
            i += 1;
        }
        n
    }
}
