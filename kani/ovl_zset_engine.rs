// Overlay for src/storage/engine.rs: C04 at the engine level (zadd / zincrby / zrem / zrange /
// zrank / zscore / zcard / zrangebyscore / zcount on a sorted set built directly by the skip-list
// overlay, production key type Vec<u8>).  Needs ovl_skiplist.rs on src/storage/skiplist.rs in the
// same group (its pub inherent `SkipList::verif_*` functions build and walk the list).
#![allow(dead_code, unused)]
use super::*;
use crate::storage::value::{StringEncoding, ValueMetadata};
use crate::verif_common::*;
use std::panic::catch_unwind;

type ZL = SkipList<Vec<u8>, f64>;
const ZCAP: usize = 4;

// ---------------------------------------------------------------- engine state built directly
fn z_shard() -> Arc<RwLock<DatabaseShard>> {
    Arc::new(RwLock::new(DatabaseShard { data: HashMap::new(), expiring_keys: HashMap::new(), watch_tracker: ShardWatchTracker::new() }))
}
/// one database, no sweeper thread, unlimited memory (SHARDS_PER_DATABASE shrunk to 2 by the group)
fn z_engine() -> StorageEngine {
    assert!(SHARDS_PER_DATABASE == 2);
    StorageEngine {
        databases: vec![Database { shards: vec![z_shard(), z_shard()] }],
        memory_manager: Arc::new(MemoryManager::unlimited()),
        expiration_handle: None,
    }
}
fn z_put(e: &StorageEngine, key: &[u8], value: Value) {
    let t0 = mk_instant(T0_S, 0);
    let shard = e.get_shard(0, key).ok().unwrap();
    let mut g = shard.write().unwrap();
    g.data.insert(key.to_vec(), StoredValue { value, metadata: ValueMetadata { expires_at: None, created_at: t0, last_accessed: t0, encoding: StringEncoding::Raw } });
}
/// 0 = absent, 1 = sorted set, 2 = other type (observation bypassing all engine operations)
fn z_kind(e: &StorageEngine, key: &[u8]) -> u8 {
    let shard = e.get_shard(0, key).ok().unwrap();
    let g = shard.read().unwrap();
    match g.data.get(key) {
        None => 0,
        Some(sv) => match &sv.value {
            Value::SortedSet(_) => 1,
            _ => 2,
        },
    }
}
fn fake_thread_rng() -> rand::rngs::ThreadRng {
    unsafe { std::mem::transmute::<usize, rand::rngs::ThreadRng>(8usize) }
}
/// Stub for `SkipList::new`: only the absent-key branches of zadd/zincrby call it; every harness
/// here starts with the key present, so reaching it is reported (assert), and the branch behind
/// it (shard-map insertion of a fresh set) is not part of these harnesses.
fn new_cut<K, V>() -> SkipList<K, V>
where
    K: Clone + Ord + std::fmt::Debug + std::hash::Hash + Eq + Default,
    V: Clone + PartialOrd + std::fmt::Debug + Default,
{
    assert!(false, "absent-key branch (SkipList::new) reached although the key holds a sorted set");
    kani::assume(false);
    loop {}
}
const KEY: &[u8] = b"z";

/// engine with key "z" holding an arbitrary valid sorted set of the given tower shape
fn z_state<const N: usize>(h: [usize; N]) -> (StorageEngine, Arc<ZL>, [u8; N], [f64; N]) {
    let e = z_engine();
    let (l, k, s) = ZL::verif_any::<N>(h);
    let al = Arc::new(l);
    z_put(&e, KEY, Value::SortedSet(al.clone()));
    (e, al, k, s)
}
fn pos_of<const N: usize>(k: &[u8; N], m: u8) -> Option<usize> {
    let mut r = None;
    let mut i = N;
    while i > 0 {
        i -= 1;
        if k[i] == m {
            r = Some(i);
        }
    }
    r
}
fn chain_has(c: &(usize, [u8; ZCAP], [f64; ZCAP]), m: u8, sc: f64) -> bool {
    let mut r = false;
    let mut i = 0;
    while i < ZCAP {
        if i < c.0 && c.1[i] == m && c.2[i].to_bits() == sc.to_bits() {
            r = true;
        }
        i += 1;
    }
    r
}
fn chain_same<const N: usize>(c: &(usize, [u8; ZCAP], [f64; ZCAP]), k: &[u8; N], s: &[f64; N]) -> bool {
    let mut r = c.0 == N;
    let mut i = 0;
    while i < N {
        if !(c.1[i] == k[i] && c.2[i].to_bits() == s[i].to_bits()) {
            r = false;
        }
        i += 1;
    }
    r
}

/// region selector for the score argument
#[derive(Clone, Copy, PartialEq)]
enum Reg {
    All,
    Rest,
    Kf,
}

// ---------------------------------------------------------------- ZADD
/// ZADD z score m on an existing sorted set: any member byte, ANY f64 bit pattern as score.
/// A NaN score must be refused and leave the set unchanged; otherwise the member is present
/// once with its latest score, reply = "is new".
fn body_zadd<const N: usize>(h: [usize; N], reg: Reg, lvl: usize) {
    let (e, al, k, s) = z_state::<N>(h);
    let m: u8 = kani::any();
    let score: f64 = kani::any();
    match reg {
        Reg::All => {}
        Reg::Rest => kani::assume(!score.is_nan()),
        Reg::Kf => kani::assume(score.is_nan()),
    }
    ZL::verif_set_level(lvl);
    let r = std::mem::ManuallyDrop::new(e.zadd(0, KEY.to_vec(), vec![m], score));
    let pos = pos_of(&k, m);
    if score.is_nan() {
        assert!(r.is_err(), "ZADD with a NaN score must be refused");
        let c = al.verif_check();
        assert!(chain_same(&c, &k, &s), "refused ZADD leaves the set unchanged");
    } else {
        match &*r {
            Ok(is_new) => assert!(*is_new == pos.is_none(), "ZADD reply: member is new"),
            Err(_) => assert!(false, "ZADD on a sorted set with a number as score must succeed"),
        }
        let c = al.verif_check();
        assert!(c.0 == N + (if pos.is_none() { 1 } else { 0 }), "ZADD cardinality");
        assert!(chain_has(&c, m, score), "member present with its latest score");
        let mut i = 0;
        while i < N {
            if k[i] != m {
                assert!(chain_has(&c, k[i], s[i]), "other members keep their scores");
            }
            i += 1;
        }
    }
    assert!(z_kind(&e, KEY) == 1, "key still holds the sorted set");
    // one witness; in the known-finding region it only says that the end is reached (i.e. after a repair)
    let w = if reg == Reg::Kf { true } else { pos.is_none() && score == f64::NEG_INFINITY };
    kani::cover!(w, "witness: new member with score -inf");
    std::mem::forget(e);
}

// ---------------------------------------------------------------- ZINCRBY
/// ZINCRBY z incr m on an existing sorted set: any member, any increment (any f64 bit pattern).
/// If the resulting score is NaN (NaN increment, or inf + -inf) the command must be refused and
/// leave the set unchanged; otherwise new score = old + incr (or incr for a new member).
fn body_zincrby<const N: usize>(h: [usize; N], reg: Reg, lvl: usize) {
    let (e, al, k, s) = z_state::<N>(h);
    let m: u8 = kani::any();
    let incr: f64 = kani::any();
    let pos = pos_of(&k, m);
    // the result is NaN iff the increment is NaN or the operands are infinities of opposite sign
    // (decided without performing the addition: Kani flags every NaN-producing float operation)
    let nan_result = incr.is_nan()
        || match pos {
            Some(i) => s[i].is_infinite() && incr.is_infinite() && s[i] != incr,
            None => false,
        };
    match reg {
        Reg::All => {}
        Reg::Rest => kani::assume(!nan_result),
        Reg::Kf => kani::assume(nan_result),
    }
    ZL::verif_set_level(lvl);
    let r = std::mem::ManuallyDrop::new(e.zincrby(0, KEY.to_vec(), vec![m], incr));
    if nan_result {
        assert!(r.is_err(), "ZINCRBY whose result is NaN must be refused");
        let c = al.verif_check();
        assert!(chain_same(&c, &k, &s), "refused ZINCRBY leaves the set unchanged");
    } else {
        let want = match pos {
            Some(i) => s[i] + incr,
            None => incr,
        };
        match &*r {
            Ok(ns) => assert!(ns.to_bits() == want.to_bits(), "ZINCRBY reply = old score + increment"),
            Err(_) => assert!(false, "ZINCRBY with a numeric result must succeed"),
        }
        let c = al.verif_check();
        assert!(c.0 == N + (if pos.is_none() { 1 } else { 0 }), "ZINCRBY cardinality");
        assert!(chain_has(&c, m, want), "member present with its new score");
        let mut i = 0;
        while i < N {
            if k[i] != m {
                assert!(chain_has(&c, k[i], s[i]), "other members keep their scores");
            }
            i += 1;
        }
    }
    let w = if reg == Reg::Kf { true } else { pos.is_some() && !nan_result && incr == f64::INFINITY };
    kani::cover!(w, "witness: existing member incremented to +inf");
    std::mem::forget(e);
}

// ---------------------------------------------------------------- ZREM
/// ZREM z m: removing the last member removes the key; otherwise the key stays and the set is consistent.
fn body_zrem<const N: usize>(h: [usize; N]) {
    let (e, al, k, s) = z_state::<N>(h);
    let m: u8 = kani::any();
    let pos = pos_of(&k, m);
    let mb = [m];
    let r = std::mem::ManuallyDrop::new(e.zrem(0, KEY, &mb));
    match &*r {
        Ok(removed) => assert!(*removed == pos.is_some(), "ZREM reply"),
        Err(_) => assert!(false, "ZREM on a sorted set must succeed"),
    }
    let c = al.verif_check();
    assert!(c.0 == N - (if pos.is_some() { 1 } else { 0 }), "ZREM cardinality");
    let mut i = 0;
    while i < N {
        if k[i] != m {
            assert!(chain_has(&c, k[i], s[i]), "other members keep their scores");
        }
        i += 1;
    }
    if c.0 == 0 {
        assert!(z_kind(&e, KEY) == 0, "removing the last member removes the key");
    } else {
        assert!(z_kind(&e, KEY) == 1, "key stays while members remain");
    }
    kani::cover!(pos.is_some(), "witness: member removed");
    std::mem::forget(e);
}

// ---------------------------------------------------------------- ZRANGE / ZREVRANGE
/// Redis zrangeGenericCommand index translation: Some((lo, hi)) inclusive positions in the
/// (possibly reversed) order, None = empty reply.
fn model_range(len: usize, start: isize, stop: isize) -> Option<(usize, usize)> {
    let l = len as i128;
    let mut s = start as i128;
    let mut e = stop as i128;
    if s < 0 {
        s += l;
    }
    if e < 0 {
        e += l;
    }
    if s < 0 {
        s = 0;
    }
    if s > e || s >= l {
        return None;
    }
    if e >= l {
        e = l - 1;
    }
    Some((s as usize, e as usize))
}
/// known-finding region of zrange: stop below -len (clamped to 0 instead of "empty"), and for the
/// reverse direction additionally start >= len (no out-of-range test on that branch)
fn zrange_region(len: usize, start: isize, stop: isize, reverse: bool) -> bool {
    let l = len as i128;
    (stop as i128) < -l || (reverse && (start as i128) >= l)
}
fn body_zrange<const N: usize>(h: [usize; N], reg: Reg) {
    let (e, al, k, s) = z_state::<N>(h);
    let start: isize = kani::any();
    let stop: isize = kani::any();
    let reverse: bool = kani::any();
    match reg {
        Reg::All => {}
        Reg::Rest => kani::assume(!zrange_region(N, start, stop, reverse)),
        Reg::Kf => kani::assume(zrange_region(N, start, stop, reverse)),
    }
    let r = std::mem::ManuallyDrop::new(e.zrange(0, KEY, start, stop, reverse));
    let items = match &*r {
        Ok(v) => v,
        Err(_) => {
            assert!(false, "ZRANGE on a sorted set must succeed");
            loop {}
        }
    };
    match model_range(N, start, stop) {
        None => assert!(items.len() == 0, "ZRANGE must be empty here (start > stop or out of range after normalisation)"),
        Some((lo, hi)) => {
            assert!(items.len() == hi - lo + 1, "ZRANGE reply length");
            let mut i = 0;
            while i < N {
                if i < items.len() {
                    let src = if reverse { N - 1 - (lo + i) } else { lo + i };
                    assert!(items[i].0.len() == 1 && items[i].0[0] == k[src] && items[i].1.to_bits() == s[src].to_bits(), "ZRANGE reply items in order");
                }
                i += 1;
            }
        }
    }
    let w = if reg == Reg::Kf { true } else { items.len() == N && reverse && start == 0 && stop == -1 };
    kani::cover!(w, "witness: ZREVRANGE 0 -1 whole set");
    let c = al.verif_check();
    assert!(chain_same(&c, &k, &s), "ZRANGE does not change the set");
    std::mem::forget(e);
}

// ---------------------------------------------------------------- ZRANK / ZREVRANK / ZSCORE / ZCARD
fn body_zrank<const N: usize>(h: [usize; N]) {
    let (e, al, k, s) = z_state::<N>(h);
    let m: u8 = kani::any();
    let mb = [m];
    let reverse: bool = kani::any();
    let pos = pos_of(&k, m);
    let rk = std::mem::ManuallyDrop::new(e.zrank(0, KEY, &mb, reverse));
    let sc = std::mem::ManuallyDrop::new(e.zscore(0, KEY, &mb));
    let cd = std::mem::ManuallyDrop::new(e.zcard(0, KEY));
    let want_rank = pos.map(|i| if reverse { N - 1 - i } else { i });
    match (&*rk, &*sc, &*cd) {
        (Ok(a), Ok(b), Ok(c)) => {
            assert!(*a == want_rank, "ZRANK / ZREVRANK");
            assert!(b.map(|x| x.to_bits()) == pos.map(|i| s[i].to_bits()), "ZSCORE");
            assert!(*c == N, "ZCARD");
        }
        _ => assert!(false, "ZRANK/ZSCORE/ZCARD on a sorted set must succeed"),
    }
    kani::cover!(reverse && pos == Some(0), "witness: ZREVRANK of the lowest member");
    let c = al.verif_check();
    assert!(chain_same(&c, &k, &s), "queries do not change the set");
    std::mem::forget(e);
}

// ---------------------------------------------------------------- ZRANGEBYSCORE / ZREVRANGEBYSCORE / ZCOUNT
fn body_zrangebyscore<const N: usize>(h: [usize; N]) {
    let (e, al, k, s) = z_state::<N>(h);
    let lo: f64 = kani::any();
    let hi: f64 = kani::any();
    kani::assume(!lo.is_nan() && !hi.is_nan());
    let reverse: bool = kani::any();
    let r = std::mem::ManuallyDrop::new(e.zrangebyscore(0, KEY, lo, hi, reverse));
    let cnt = std::mem::ManuallyDrop::new(e.zcount(0, KEY, lo, hi));
    let items = match &*r {
        Ok(v) => v,
        Err(_) => {
            assert!(false, "ZRANGEBYSCORE on a sorted set must succeed");
            loop {}
        }
    };
    // model: members with lo <= score <= hi in order (reversed if requested)
    let mut inb = [false; N];
    let mut exp_n = 0;
    let mut i = 0;
    while i < N {
        if lo <= s[i] && s[i] <= hi {
            inb[i] = true;
            exp_n += 1;
        }
        i += 1;
    }
    assert!(items.len() == exp_n, "ZRANGEBYSCORE cardinality");
    match &*cnt {
        Ok(c) => assert!(*c == exp_n, "ZCOUNT == number of members inside the bounds"),
        Err(_) => assert!(false, "ZCOUNT must succeed"),
    }
    // the members inside the bounds are contiguous in a sorted chain: first one at index f
    let mut f = N;
    let mut i = N;
    while i > 0 {
        i -= 1;
        if inb[i] {
            f = i;
        }
    }
    let mut i = 0;
    while i < N {
        if i < items.len() {
            let src = if reverse { f + exp_n - 1 - i } else { f + i };
            assert!(src < N && inb[src], "model: in-bounds members are contiguous");
            assert!(items[i].0.len() == 1 && items[i].0[0] == k[src] && items[i].1.to_bits() == s[src].to_bits(), "ZRANGEBYSCORE items in order");
        }
        i += 1;
    }
    kani::cover!(exp_n == N && reverse, "witness: whole set reversed");
    std::mem::forget(e);
}

// ---------------------------------------------------------------- C19: ZSCAN iteration across a re-score
/// A full ZSCAN iteration with COUNT 2 over three members m0, m1, m2 (symbolic, distinct) while m0 is
/// re-scored from below the others to above them between the two calls.  The state after the
/// re-score is built directly (same members, new score order) - that ZADD produces exactly such a
/// state is decided by the c04_e_zadd_* / c04_*_h* harnesses.  Every member exists throughout, so
/// every member must be returned at least once, nothing else may be returned, and the iteration ends.
fn body_zscan_rescore() {
    let m: [u8; 3] = kani::any();
    kani::assume(m[0] != m[1] && m[0] != m[2] && m[1] != m[2]);
    let e1 = z_engine();
    z_put(&e1, KEY, Value::SortedSet(Arc::new(ZL::verif_from::<3>([1, 1, 1], [m[0], m[1], m[2]], [1.0, 2.0, 3.0]))));
    let e2 = z_engine();
    z_put(&e2, KEY, Value::SortedSet(Arc::new(ZL::verif_from::<3>([1, 1, 1], [m[1], m[2], m[0]], [2.0, 3.0, 4.0]))));
    let mut seen = [false; 3];
    let mut extra = false;
    let r1 = std::mem::ManuallyDrop::new(e1.zscan(0, KEY, 0, None, 2));
    let cur = match &*r1 {
        Ok((c, items)) => {
            let mut i = 0;
            while i < items.len() && i < 3 {
                let b = if items[i].0.len() == 1 { items[i].0[0] } else { extra = true; 0 };
                let mut j = 0;
                let mut hit = false;
                while j < 3 {
                    if b == m[j] {
                        seen[j] = true;
                        hit = true;
                    }
                    j += 1;
                }
                if !hit {
                    extra = true;
                }
                i += 1;
            }
            assert!(items.len() <= 2, "ZSCAN COUNT 2 returns at most 2 members here");
            *c
        }
        Err(_) => {
            assert!(false, "ZSCAN on a sorted set must succeed");
            loop {}
        }
    };
    assert!(cur != 0, "three members with COUNT 2: the first call cannot finish the iteration");
    let r2 = std::mem::ManuallyDrop::new(e2.zscan(0, KEY, cur, None, 2));
    match &*r2 {
        Ok((c, items)) => {
            let mut i = 0;
            while i < items.len() && i < 3 {
                let b = if items[i].0.len() == 1 { items[i].0[0] } else { extra = true; 0 };
                let mut j = 0;
                let mut hit = false;
                while j < 3 {
                    if b == m[j] {
                        seen[j] = true;
                        hit = true;
                    }
                    j += 1;
                }
                if !hit {
                    extra = true;
                }
                i += 1;
            }
            assert!(*c == 0, "the second call reaches the end of the collection");
        }
        Err(_) => assert!(false, "ZSCAN on a sorted set must succeed"),
    }
    kani::cover!(seen[0] && seen[1] && seen[2], "witness: all three members returned");
    assert!(!extra, "ZSCAN returned something that is not a member");
    assert!(seen[0] && seen[1] && seen[2], "a member that existed throughout the iteration was not returned (re-score between calls)");
    std::mem::forget(e1);
    std::mem::forget(e2);
}

// ---------------------------------------------------------------- harnesses
// Written out one by one (replay.py looks for `fn <name>(` in this file).
#[kani::proof]
#[kani::unwind(5)]
#[kani::stub(std::time::Instant::now, crate::verif_common::now_fixed)]
#[kani::stub(catch_unwind, cu_stub)]
#[kani::stub(crate::storage::skiplist::SkipList::new, new_cut)]
#[kani::stub(crate::storage::skiplist::SkipList::random_level, crate::storage::skiplist::SkipList::verif_rl)]
fn c04_e_zadd_rest() {
    body_zadd::<1>([1], Reg::Rest, 1);
}
#[kani::proof]
#[kani::unwind(5)]
#[kani::stub(std::time::Instant::now, crate::verif_common::now_fixed)]
#[kani::stub(catch_unwind, cu_stub)]
#[kani::stub(crate::storage::skiplist::SkipList::new, new_cut)]
#[kani::stub(crate::storage::skiplist::SkipList::random_level, crate::storage::skiplist::SkipList::verif_rl)]
fn c04_e_zadd_kf() {
    body_zadd::<1>([1], Reg::Kf, 1);
}
#[kani::proof]
#[kani::unwind(5)]
#[kani::stub(std::time::Instant::now, crate::verif_common::now_fixed)]
#[kani::stub(catch_unwind, cu_stub)]
#[kani::stub(crate::storage::skiplist::SkipList::new, new_cut)]
#[kani::stub(crate::storage::skiplist::SkipList::random_level, crate::storage::skiplist::SkipList::verif_rl)]
fn c04_e_zincrby_rest() {
    body_zincrby::<1>([1], Reg::Rest, 0);
}
#[kani::proof]
#[kani::unwind(5)]
#[kani::stub(std::time::Instant::now, crate::verif_common::now_fixed)]
#[kani::stub(catch_unwind, cu_stub)]
#[kani::stub(crate::storage::skiplist::SkipList::new, new_cut)]
#[kani::stub(crate::storage::skiplist::SkipList::random_level, crate::storage::skiplist::SkipList::verif_rl)]
fn c04_e_zincrby_kf() {
    body_zincrby::<1>([1], Reg::Kf, 0);
}
#[kani::proof]
#[kani::unwind(5)]
#[kani::stub(std::time::Instant::now, crate::verif_common::now_fixed)]
#[kani::stub(catch_unwind, cu_stub)]
#[kani::stub(crate::storage::skiplist::SkipList::new, new_cut)]
#[kani::stub(crate::storage::skiplist::SkipList::random_level, crate::storage::skiplist::SkipList::verif_rl)]
fn c04_e_zrem_n1() {
    body_zrem::<1>([1]);
}
#[kani::proof]
#[kani::unwind(5)]
#[kani::stub(std::time::Instant::now, crate::verif_common::now_fixed)]
#[kani::stub(catch_unwind, cu_stub)]
#[kani::stub(crate::storage::skiplist::SkipList::new, new_cut)]
#[kani::stub(crate::storage::skiplist::SkipList::random_level, crate::storage::skiplist::SkipList::verif_rl)]
fn c04_e_zrange_rest() {
    body_zrange::<2>([1, 1], Reg::Rest);
}
#[kani::proof]
#[kani::unwind(5)]
#[kani::stub(std::time::Instant::now, crate::verif_common::now_fixed)]
#[kani::stub(catch_unwind, cu_stub)]
#[kani::stub(crate::storage::skiplist::SkipList::new, new_cut)]
#[kani::stub(crate::storage::skiplist::SkipList::random_level, crate::storage::skiplist::SkipList::verif_rl)]
fn c04_e_zrange_kf() {
    body_zrange::<2>([1, 1], Reg::Kf);
}
#[kani::proof]
#[kani::unwind(5)]
#[kani::stub(std::time::Instant::now, crate::verif_common::now_fixed)]
#[kani::stub(catch_unwind, cu_stub)]
#[kani::stub(crate::storage::skiplist::SkipList::new, new_cut)]
#[kani::stub(crate::storage::skiplist::SkipList::random_level, crate::storage::skiplist::SkipList::verif_rl)]
fn c04_e_zrank_n2() {
    body_zrank::<2>([2, 1]);
}
#[kani::proof]
#[kani::unwind(5)]
#[kani::stub(std::time::Instant::now, crate::verif_common::now_fixed)]
#[kani::stub(catch_unwind, cu_stub)]
#[kani::stub(crate::storage::skiplist::SkipList::new, new_cut)]
#[kani::stub(crate::storage::skiplist::SkipList::random_level, crate::storage::skiplist::SkipList::verif_rl)]
fn c04_e_zrangebyscore_n2() {
    body_zrangebyscore::<2>([1, 2]);
}

#[kani::proof]
#[kani::unwind(6)]
#[kani::stub(std::time::Instant::now, crate::verif_common::now_fixed)]
#[kani::stub(catch_unwind, cu_stub)]
#[kani::stub(std::vec::Vec::new, crate::verif_common::vec_new_cap8)]
#[kani::stub(std::vec::Vec::push, crate::verif_common::vec_push_nogrow)]
fn c19_zscan_rescore() {
    body_zscan_rescore();
}
