// Shared stubs and helpers for all Kani overlays (compiled only under cfg(kani), only in the
// scratch copy).  Every stub here is part of the claim of the harnesses that use it and is
// listed in the evidence files.
#![allow(dead_code, unused)]
use std::time::{Duration, Instant};

#[repr(C)]
#[derive(Clone, Copy)]
struct RawInstant {
    s: i64,
    ns: u32,
    pad: u32,
}

/// Build an `Instant` from (seconds, nanoseconds).  Linux `Instant` is `Timespec{tv_sec:i64,
/// tv_nsec:u32(<1e9)}`; the layout is asserted by harness `common_instant_layout`.
pub fn mk_instant(s: i64, ns: u32) -> Instant {
    unsafe { std::mem::transmute::<RawInstant, Instant>(RawInstant { s, ns, pad: 0 }) }
}
pub fn instant_parts(i: Instant) -> (i64, u32) {
    let r = unsafe { std::mem::transmute::<Instant, RawInstant>(i) };
    (r.s, r.ns)
}

pub const T0_S: i64 = 1_000_000;
pub static mut CLOCK_S: i64 = T0_S;
pub static mut CLOCK_NS: u32 = 0;
/// number of clock readings taken so far (for harnesses that pin readings)
pub static mut CLOCK_READS: u32 = 0;

/// Stub for `Instant::now`: fixed clock (time is irrelevant for the harness).
pub fn now_fixed() -> Instant {
    unsafe { mk_instant(CLOCK_S, CLOCK_NS) }
}

/// Stub for `Instant::now`: the harness sets CLOCK_S / CLOCK_NS explicitly between calls.
pub fn now_manual() -> Instant {
    unsafe {
        CLOCK_READS += 1;
        mk_instant(CLOCK_S, CLOCK_NS)
    }
}
pub fn set_clock(s: i64, ns: u32) {
    unsafe {
        CLOCK_S = s;
        CLOCK_NS = ns;
    }
}

/// Stub for `Instant::now`: arbitrary non-decreasing readings (every reading may advance).
pub fn now_symbolic() -> Instant {
    unsafe {
        let ds: u32 = kani::any();
        let dns: u32 = kani::any();
        kani::assume(dns < 1_000_000_000);
        let mut s = CLOCK_S + ds as i64;
        let mut ns = CLOCK_NS + dns;
        if ns >= 1_000_000_000 {
            ns -= 1_000_000_000;
            s += 1;
        }
        CLOCK_S = s;
        CLOCK_NS = ns;
        CLOCK_READS += 1;
        mk_instant(s, ns)
    }
}

/// Stub for `alloc::fmt::format`: message text is not part of any property ("up to wording").
pub fn fmt_stub(_a: std::fmt::Arguments<'_>) -> String {
    String::new()
}

/// Stub for `std::panic::catch_unwind` (exact under Kani's panic=abort).
pub fn cu_stub<F: FnOnce() -> R + std::panic::UnwindSafe, R>(f: F) -> std::thread::Result<R> {
    Ok(f())
}

/// symbolic byte vector of exactly N bytes
pub fn any_vec<const N: usize>() -> Vec<u8> {
    let a: [u8; N] = kani::any();
    a.to_vec()
}

/// compare two byte slices without memcmp unrolling surprises (lengths are concrete in harnesses)
pub fn bytes_eq(a: &[u8], b: &[u8]) -> bool {
    if a.len() != b.len() {
        return false;
    }
    let mut i = 0;
    while i < a.len() {
        if a[i] != b[i] {
            return false;
        }
        i += 1;
    }
    true
}

// ---------------------------------------------------------------- exact tractability stubs
// A symbolic number of `Vec::push` calls makes the capacity symbolic after the first merge point
// and every later (re)allocation symbolic-sized (CBMC out of memory).  `Vec::new` reserves 8
// slots (capacity is unobservable) and `Vec::push` writes without growing; a push beyond the
// reservation FAILS the harness, so nothing is cut.
pub fn vec_new_cap8<T>() -> Vec<T> {
    Vec::with_capacity(8)
}
pub fn vec_push_nogrow<T, A: std::alloc::Allocator>(v: &mut Vec<T, A>, x: T) {
    let l = v.len();
    assert!(l < v.capacity(), "harness shape: push beyond the reserved capacity");
    unsafe {
        std::ptr::write(v.as_mut_ptr().add(l), x);
        v.set_len(l + 1);
    }
}
/// `ptr::copy` (memmove) with a symbolic element count is a symbolic-size copy; exact replacement
/// by per-element moves in the overlap-safe direction.
pub unsafe fn ptr_copy_elementwise<T>(src: *const T, dst: *mut T, count: usize) {
    if (dst as *const T) <= src {
        let mut i = 0;
        while i < count {
            std::ptr::write(dst.add(i), std::ptr::read(src.add(i)));
            i += 1;
        }
    } else {
        let mut i = count;
        while i > 0 {
            i -= 1;
            std::ptr::write(dst.add(i), std::ptr::read(src.add(i)));
        }
    }
}

/// Exact replacement of `s.chars().collect::<Vec<char>>()` for ASCII strings (the UTF-8 decoder of
/// `str::chars` over symbolic bytes does not fit); a non-ASCII byte FAILS the harness, so nothing
/// is cut silently.  Substituted textually into the scratch copy where a group says so.
pub fn ascii_chars(s: &str) -> Vec<char> {
    let b = s.as_bytes();
    let mut v: Vec<char> = Vec::with_capacity(b.len());
    let mut i = 0;
    while i < b.len() {
        assert!(b[i] < 128, "harness shape: ASCII only");
        unsafe {
            std::ptr::write(v.as_mut_ptr().add(i), b[i] as char);
        }
        i += 1;
    }
    unsafe { v.set_len(b.len()) };
    v
}
