// Overlay for src/pubsub.rs (child module => sees private items).  Property C14.
//  (i)   pattern_matches(pattern, text) == recursive reference glob matcher (Redis stringmatchlen:
//        `*`, `?`, `[..]`, `[^..]`, ranges a-z, backslash escape), pattern and text symbolic bytes.
//  (ii)  one (P)(UN)SUBSCRIBE / unsubscribe_all from a directly built manager state: one
//        acknowledgement per requested name carrying the model's remaining subscription count;
//        afterwards the three internal maps equal the model (so they agree with each other).
//  (iii) one publish from a directly built manager state: one receiver entry per matching
//        subscription (channel or pattern), nobody else, count == number of deliveries.
// Manager states are built on the stack by struct literal through the std container API
// (PubSubManager::new() returns an Arc: state behind an Arc is read back bytewise by CBMC).
// Model = set of (connection, Channel|Pattern) pairs over 2 connections (symbolic distinct ids),
// channels "x","y" and patterns "p*","q?" (subscription index 0..3 = x, y, p*, q?).
#![allow(dead_code, unused)]
use super::*;
use crate::verif_common::*;

// =================================================================== (i) glob
/// byte i of the pattern, 0 beyond the end (Redis patterns are sds strings: NUL-terminated)
fn pat_at(p: &[u8], i: usize) -> u8 {
    if i < p.len() {
        p[i]
    } else {
        0
    }
}

/// `case '['` of stringmatchlen_impl, transcribed: the class starts at p[i] == '['; `s` is the
/// text byte.  Returns (class matches s, index of the pattern byte that follows the class).
fn ref_class(p: &[u8], open: usize, s: u8) -> (bool, usize) {
    let mut i = open + 1;
    let not = pat_at(p, i) == b'^';
    if not {
        i += 1;
    }
    let mut matched = false;
    let mut done = false;
    let mut steps = 0;
    // at most one iteration per pattern byte
    while steps <= p.len() && !done {
        let left = if i <= p.len() { p.len() - i } else { 0 };
        if pat_at(p, i) == b'\\' && left >= 2 {
            i += 1;
            if p[i] == s {
                matched = true;
            }
            i += 1;
        } else if pat_at(p, i) == b']' && left >= 1 {
            done = true;
        } else if left == 0 {
            i -= 1;
            done = true;
        } else if left >= 3 && p[i + 1] == b'-' {
            let mut lo = p[i];
            let mut hi = p[i + 2];
            if lo > hi {
                let x = lo;
                lo = hi;
                hi = x;
            }
            if s >= lo && s <= hi {
                matched = true;
            }
            i += 3;
        } else {
            if p[i] == s {
                matched = true;
            }
            i += 1;
        }
        steps += 1;
    }
    if not {
        matched = !matched;
    }
    (matched, i + 1)
}

/// Reference matcher: the recurrence of Redis util.c stringmatchlen_impl (nocase = 0) evaluated
/// bottom-up over a table (memoised recursion; a directly recursive transcription made CBMC
/// unroll ~6^7 calls).  m[i][j] == pattern[i..] matches text[j..]:
///   m[P][j]            = (j == T)
///   p[i] == '*'        : m[i+1][j] || (j < T && m[i][j+1])
///   j == T             : false
///   p[i] == '?'        : m[i+1][j+1]
///   p[i] == '['        : class(p, i) contains t[j] && m[after the class][j+1]
///   p[i] == '\\', i+1<P  : p[i+1] == t[j] && m[i+2][j+1]
///   otherwise          : p[i] == t[j] && m[i+1][j+1]
/// One deliberate reading: `*` matches the empty string also when the text is empty (glob
/// semantics, ferrous' own unit test; the C loop is simply not entered for an empty text).
const MAXP: usize = 5;
const MAXT: usize = 5;
fn ref_glob<const P: usize, const T: usize>(p: &[u8; P], t: &[u8; T]) -> bool {
    let mut m = [[false; MAXT + 1]; MAXP + 2];
    let mut i = P + 1;
    while i > 0 {
        i -= 1;
        let mut j = T + 1;
        while j > 0 {
            j -= 1;
            m[i][j] = if i == P {
                j == T
            } else if p[i] == b'*' {
                m[i + 1][j] || (j < T && m[i][j + 1])
            } else if j == T {
                false
            } else if p[i] == b'?' {
                m[i + 1][j + 1]
            } else if p[i] == b'[' {
                let (ok, next) = ref_class(p, i, t[j]);
                ok && next <= P && m[next][j + 1]
            } else if p[i] == b'\\' && i + 1 < P {
                p[i + 1] == t[j] && m[i + 2][j + 1]
            } else {
                p[i] == t[j] && m[i + 1][j + 1]
            };
        }
    }
    m[0][0]
}

fn has_bracket(p: &[u8]) -> bool {
    let mut i = 0;
    while i < p.len() {
        if p[i] == b'[' {
            return true;
        }
        i += 1;
    }
    false
}

/// region: Some(false) = patterns without '[' (must agree), Some(true) = patterns with '['
/// (character classes: known finding).  Returns witness flags.
fn glob_case<const P: usize, const T: usize>(region: bool) -> u32 {
    let p: [u8; P] = kani::any();
    let t: [u8; T] = kani::any();
    if has_bracket(&p) != region {
        return 0;
    }
    let want = ref_glob(&p, &t);
    let got = pattern_matches(&p, &t);
    assert!(got == want, "pattern_matches differs from the reference glob matcher (Redis stringmatchlen)");
    (got as u32) | ((!got) as u32) << 1 | ((got && P >= 2 && p[0] == b'\\') as u32) << 2 | ((got && P >= 1 && T >= 2 && p[0] == b'*') as u32) << 3
}
fn glob_covers(w: u32) {
    kani::cover!(w & 1 != 0, "some pattern matches");
    kani::cover!(w & 2 != 0, "some pattern does not match");
    kani::cover!(w & 4 != 0, "match through an escape");
    kani::cover!(w & 8 != 0, "match through a leading star");
}

/// every pattern length <= 2 against every text length <= 3
#[kani::proof]
#[kani::unwind(7)]
fn c14_glob_p2_t3_rest() {
    let mut w = 0;
    w |= glob_case::<0, 0>(false) | glob_case::<0, 1>(false) | glob_case::<0, 2>(false) | glob_case::<0, 3>(false);
    w |= glob_case::<1, 0>(false) | glob_case::<1, 1>(false) | glob_case::<1, 2>(false) | glob_case::<1, 3>(false);
    w |= glob_case::<2, 0>(false) | glob_case::<2, 1>(false) | glob_case::<2, 2>(false) | glob_case::<2, 3>(false);
    glob_covers(w);
}
/// pattern length 3 against every text length <= 2
#[kani::proof]
#[kani::unwind(7)]
fn c14_glob_p3_t2_rest() {
    let mut w = 0;
    w |= glob_case::<3, 0>(false) | glob_case::<3, 1>(false) | glob_case::<3, 2>(false);
    glob_covers(w);
}
#[kani::proof]
#[kani::unwind(8)]
fn c14_glob_p3_t3_rest() {
    let w = glob_case::<3, 3>(false);
    glob_covers(w);
}
#[kani::proof]
#[kani::unwind(9)]
fn c14_glob_p4_t3_rest() {
    let w = glob_case::<4, 3>(false);
    glob_covers(w);
}
/// character classes: patterns containing '[' (ferrous treats '[' as a literal)
#[kani::proof]
#[kani::unwind(7)]
fn c14_glob_class_kf() {
    let mut w = 0;
    w |= glob_case::<1, 1>(true) | glob_case::<2, 1>(true) | glob_case::<3, 1>(true) | glob_case::<3, 2>(true);
    kani::cover!(w & 3 != 0, "a pattern with a class was compared");
}

// =================================================================== model of the manager state
const NCONN: usize = 2;
const NSUB: usize = 4;
const NAMES: [&[u8]; NSUB] = [b"x", b"y", b"p*", b"q?"];
fn is_pat(n: usize) -> bool {
    n >= 2
}

/// model[c][n]: connection c holds subscription n
type Model = [[bool; NSUB]; NCONN];
const EMPTY: Model = [[false; NSUB]; NCONN];

/// connection ids: the constants 11 and 22.  Every manager operation looks ids up in sets/maps
/// and pushes into Vecs depending on the outcome; with symbolic ids (free or base + offset: CBMC
/// propagates constants only) every lookup forks, pushes happen under symbolic guards and CBMC
/// runs out of memory (measured: 4 publish instances, 14 GB).  Ids are used only in `==` and as
/// map keys, so two distinct constants stand for any two distinct ids.
fn any_ids() -> [u64; NCONN] {
    [11, 22]
}
fn count(m: &Model, c: usize) -> usize {
    m[c][0] as usize + m[c][1] as usize + m[c][2] as usize + m[c][3] as usize
}

/// Build a manager holding exactly the subscriptions of `m`, inserted in the order `order`
/// (pairs (connection, subscription)); std container API only, no ferrous function.
fn build(m: &Model, order: &[(usize, usize)], ids: &[u64; NCONN]) -> PubSubManager {
    let mut channels: HashMap<Vec<u8>, HashSet<u64>> = HashMap::new();
    let mut patterns: HashMap<Vec<u8>, HashSet<u64>> = HashMap::new();
    let mut connections: HashMap<u64, SubscriberInfo> = HashMap::new();
    let mut k = 0;
    while k < order.len() {
        let (c, n) = order[k];
        assert!(m[c][n]);
        let info = connections.entry(ids[c]).or_insert_with(|| SubscriberInfo {
            connection_id: ids[c],
            channels: HashSet::new(),
            patterns: HashSet::new(),
        });
        if is_pat(n) {
            info.patterns.insert(NAMES[n].to_vec());
            patterns.entry(NAMES[n].to_vec()).or_insert_with(HashSet::new).insert(ids[c]);
        } else {
            info.channels.insert(NAMES[n].to_vec());
            channels.entry(NAMES[n].to_vec()).or_insert_with(HashSet::new).insert(ids[c]);
        }
        k += 1;
    }
    PubSubManager { channels: Mutex::new(channels), patterns: Mutex::new(patterns), connections: Mutex::new(connections) }
}

/// The three maps describe exactly the model (hence agree with each other); no empty set and no
/// subscription-less connection is left behind.
fn check_state(mgr: &PubSubManager, m: &Model, ids: &[u64; NCONN]) {
    let channels = mgr.channels.lock().unwrap();
    let patterns = mgr.patterns.lock().unwrap();
    let connections = mgr.connections.lock().unwrap();
    let mut n_names_ch = 0;
    let mut n_names_pt = 0;
    let mut n = 0;
    while n < NSUB {
        let map = if is_pat(n) { &*patterns } else { &*channels };
        let holders = m[0][n] as usize + m[1][n] as usize;
        match map.get(NAMES[n]) {
            None => assert!(holders == 0, "a subscription of the model is missing from the channel/pattern map"),
            Some(set) => {
                assert!(holders > 0, "channel/pattern map keeps a name nobody is subscribed to (empty or stale set)");
                assert!(set.len() == holders, "subscriber set size differs from the model");
                let mut c = 0;
                while c < NCONN {
                    assert!(set.contains(&ids[c]) == m[c][n], "subscriber set membership differs from the model");
                    c += 1;
                }
                if is_pat(n) {
                    n_names_pt += 1;
                } else {
                    n_names_ch += 1;
                }
            }
        }
        n += 1;
    }
    assert!(channels.len() == n_names_ch, "channel map has a name outside the model");
    assert!(patterns.len() == n_names_pt, "pattern map has a name outside the model");
    let mut n_conn = 0;
    let mut c = 0;
    while c < NCONN {
        match connections.get(&ids[c]) {
            None => assert!(count(m, c) == 0, "a subscribed connection is missing from the connection map"),
            Some(info) => {
                assert!(count(m, c) > 0, "connection map keeps a connection without subscriptions");
                assert!(info.connection_id == ids[c], "connection record under a wrong id");
                assert!(info.channels.len() == m[c][0] as usize + m[c][1] as usize, "per-connection channel set differs from the channel map");
                assert!(info.patterns.len() == m[c][2] as usize + m[c][3] as usize, "per-connection pattern set differs from the pattern map");
                let mut n = 0;
                while n < NSUB {
                    let has = if is_pat(n) { info.patterns.contains(NAMES[n]) } else { info.channels.contains(NAMES[n]) };
                    assert!(has == m[c][n], "per-connection subscription set differs from the model");
                    n += 1;
                }
                n_conn += 1;
            }
        }
        c += 1;
    }
    assert!(connections.len() == n_conn, "connection map has a connection outside the model");
    drop(connections);
    drop(patterns);
    drop(channels);
    let mut c = 0;
    while c < NCONN {
        assert!(mgr.is_subscribed(ids[c]) == (count(m, c) > 0), "is_subscribed differs from the model");
        c += 1;
    }
}

fn model_of(order: &[(usize, usize)]) -> Model {
    let mut m = EMPTY;
    let mut k = 0;
    while k < order.len() {
        m[order[k].0][order[k].1] = true;
        k += 1;
    }
    m
}

// =================================================================== (ii) (un)subscribe
#[derive(Clone, Copy, PartialEq)]
enum Op {
    Sub,
    Unsub,
    PSub,
    PUnsub,
}

/// One call `op(conn, names)` (names = indices into NAMES of the right kind) from the state
/// `order`; checks one acknowledgement per name with the model's count and the post-state.
fn named_case(order: &[(usize, usize)], op: Op, c: usize, names: &[usize]) -> u32 {
    let ids = any_ids();
    let mut m = model_of(order);
    let mgr = build(&m, order, &ids);
    let mut args: Vec<Vec<u8>> = Vec::new();
    let mut k = 0;
    while k < names.len() {
        assert!(is_pat(names[k]) == (op == Op::PSub || op == Op::PUnsub));
        args.push(NAMES[names[k]].to_vec());
        k += 1;
    }
    let known_before = count(&m, c) > 0;
    let r = match op {
        Op::Sub => mgr.subscribe(ids[c], args),
        Op::Unsub => mgr.unsubscribe(ids[c], Some(args)),
        Op::PSub => mgr.psubscribe(ids[c], args),
        Op::PUnsub => mgr.punsubscribe(ids[c], Some(args)),
    };
    let res = match r {
        Ok(v) => v,
        Err(_) => {
            assert!(false, "(un)subscribe must not fail");
            Vec::new()
        }
    };
    assert!(res.len() == names.len(), "one acknowledgement per requested channel/pattern");
    let mut w = 0u32;
    let mut k = 0;
    while k < names.len() {
        let n = names[k];
        let was = m[c][n];
        m[c][n] = op == Op::Sub || op == Op::PSub;
        if k < res.len() {
            let a = &res[k];
            assert!(a.num_subscriptions == count(&m, c), "acknowledgement carries the connection's remaining subscription count");
            match &a.subscription {
                Subscription::Channel(x) => assert!(!is_pat(n) && bytes_eq(x, NAMES[n]), "acknowledgement names the requested channel"),
                Subscription::Pattern(x) => assert!(is_pat(n) && bytes_eq(x, NAMES[n]), "acknowledgement names the requested pattern"),
            }
            if op == Op::Sub || op == Op::PSub {
                assert!(a.is_new == !was, "is_new == the subscription did not exist before");
            }
            w |= (was as u32) | ((!was) as u32) << 1;
        }
        k += 1;
    }
    check_state(&mgr, &m, &ids);
    std::mem::forget(res);
    std::mem::forget(mgr);
    w
}

// subscription indices
const X: usize = 0;
const Y: usize = 1;
const P: usize = 2;
const Q: usize = 3;

/// UNSUBSCRIBE / PUNSUBSCRIBE without names: one acknowledgement per subscription of that kind,
/// counts descending to the remaining number of subscriptions of the other kind.
fn unsub_all_kind_case(order: &[(usize, usize)], pat: bool, c: usize) -> u32 {
    let ids = any_ids();
    let mut m = model_of(order);
    let mgr = build(&m, order, &ids);
    let before = count(&m, c);
    let r = if pat { mgr.punsubscribe(ids[c], None) } else { mgr.unsubscribe(ids[c], None) };
    let res = match r {
        Ok(v) => v,
        Err(_) => {
            assert!(false, "(p)unsubscribe must not fail");
            Vec::new()
        }
    };
    let (lo, hi) = if pat { (P, Q) } else { (X, Y) };
    let n_kind = m[c][lo] as usize + m[c][hi] as usize;
    assert!(res.len() >= 1, "UNSUBSCRIBE without names is acknowledged at least once");
    assert!(res.len() == n_kind || n_kind == 0, "one acknowledgement per subscription of the kind");
    let mut seen = [false; NSUB];
    let mut k = 0;
    while k < 2 {
        if k < res.len() && n_kind > 0 {
            let a = &res[k];
            assert!(a.num_subscriptions + k + 1 == before, "acknowledgement carries the connection's remaining subscription count");
            let name = match &a.subscription {
                Subscription::Channel(x) => {
                    assert!(!pat, "UNSUBSCRIBE acknowledges channels");
                    x
                }
                Subscription::Pattern(x) => {
                    assert!(pat, "PUNSUBSCRIBE acknowledges patterns");
                    x
                }
            };
            let n = if bytes_eq(name, NAMES[lo]) { lo } else { hi };
            assert!(bytes_eq(name, NAMES[n]) && m[c][n] && !seen[n], "acknowledged name was subscribed and is acknowledged once");
            seen[n] = true;
        }
        k += 1;
    }
    m[c][lo] = false;
    m[c][hi] = false;
    check_state(&mgr, &m, &ids);
    std::mem::forget(res);
    std::mem::forget(mgr);
    (n_kind == 2) as u32 | ((n_kind == 1 && before == 2) as u32) << 1
}

/// disconnect cleanup
fn unsubscribe_all_case(order: &[(usize, usize)], c: usize) -> u32 {
    let ids = any_ids();
    let mut m = model_of(order);
    let mgr = build(&m, order, &ids);
    let had = count(&m, c);
    assert!(mgr.unsubscribe_all(ids[c]).is_ok(), "unsubscribe_all must not fail");
    m[c] = [false; NSUB];
    check_state(&mgr, &m, &ids);
    // the connection is in no map: nothing published anywhere can reach it any more
    let channels = mgr.channels.lock().unwrap();
    for (_, set) in channels.iter() {
        assert!(!set.contains(&ids[c]), "unsubscribe_all left the connection in a channel set");
    }
    drop(channels);
    let patterns = mgr.patterns.lock().unwrap();
    for (_, set) in patterns.iter() {
        assert!(!set.contains(&ids[c]), "unsubscribe_all left the connection in a pattern set");
    }
    drop(patterns);
    std::mem::forget(mgr);
    (had == 2) as u32 | ((had == 0) as u32) << 1 | ((had == 1 && count(&m, 1 - c) == 1) as u32) << 2
}

// ---- (ii) harnesses
// NOT REGISTERED (does not finish within the budget, see reg/*.py): attributes removed
// #[kani::proof]
// #[kani::unwind(6)]
// // NOT REGISTERED (does not finish within the budget, see reg/*.py): attributes removed
// #[kani::stub(alloc::fmt::format, fmt_stub)]
fn c14_subscribe_acks() {
    let mut w = 0;
    w |= named_case(&[], Op::Sub, 0, &[X]);
    w |= named_case(&[], Op::Sub, 0, &[X, Y]);
    w |= named_case(&[(0, X)], Op::Sub, 0, &[X]);
    w |= named_case(&[(0, P)], Op::Sub, 0, &[Y]);
    w |= named_case(&[(0, X)], Op::Sub, 1, &[X]);
    w |= named_case(&[], Op::Sub, 0, &[X, X]);
    kani::cover!(w & 1 != 0, "duplicate subscription acknowledged");
    kani::cover!(w & 2 != 0, "new subscription acknowledged");
}
// NOT REGISTERED (does not finish within the budget, see reg/*.py): attributes removed
// #[kani::proof]
// #[kani::unwind(6)]
// // NOT REGISTERED (does not finish within the budget, see reg/*.py): attributes removed
// #[kani::stub(alloc::fmt::format, fmt_stub)]
fn c14_psubscribe_acks() {
    let mut w = 0;
    w |= named_case(&[], Op::PSub, 0, &[P]);
    w |= named_case(&[], Op::PSub, 0, &[P, Q]);
    w |= named_case(&[(0, P)], Op::PSub, 0, &[P]);
    w |= named_case(&[(0, X)], Op::PSub, 0, &[Q]);
    w |= named_case(&[(0, P)], Op::PSub, 1, &[P]);
    kani::cover!(w & 1 != 0, "duplicate subscription acknowledged");
    kani::cover!(w & 2 != 0, "new subscription acknowledged");
}
// NOT REGISTERED (does not finish within the budget, see reg/*.py): attributes removed
// #[kani::proof]
// #[kani::unwind(6)]
// // NOT REGISTERED (does not finish within the budget, see reg/*.py): attributes removed
// #[kani::stub(alloc::fmt::format, fmt_stub)]
fn c14_unsubscribe_acks() {
    let mut w = 0;
    w |= named_case(&[(0, X)], Op::Unsub, 0, &[X]);
    w |= named_case(&[(0, X), (0, Y)], Op::Unsub, 0, &[X]);
    w |= named_case(&[(0, X), (0, P)], Op::Unsub, 0, &[X]);
    w |= named_case(&[(0, X), (1, X)], Op::Unsub, 0, &[X]);
    w |= named_case(&[(0, X)], Op::Unsub, 0, &[Y]);
    w |= named_case(&[(0, X), (0, Y)], Op::Unsub, 0, &[X, Y]);
    w |= named_case(&[(0, X)], Op::Unsub, 0, &[X, Y]);
    kani::cover!(w & 1 != 0, "existing subscription removed");
    kani::cover!(w & 2 != 0, "unsubscribe from something not subscribed");
}
// NOT REGISTERED (does not finish within the budget, see reg/*.py): attributes removed
// #[kani::proof]
// #[kani::unwind(6)]
// // NOT REGISTERED (does not finish within the budget, see reg/*.py): attributes removed
// #[kani::stub(alloc::fmt::format, fmt_stub)]
fn c14_punsubscribe_acks() {
    let mut w = 0;
    w |= named_case(&[(0, P)], Op::PUnsub, 0, &[P]);
    w |= named_case(&[(0, P), (0, Q)], Op::PUnsub, 0, &[Q]);
    w |= named_case(&[(0, X), (0, P)], Op::PUnsub, 0, &[P]);
    w |= named_case(&[(0, P), (1, P)], Op::PUnsub, 1, &[P]);
    w |= named_case(&[(0, P)], Op::PUnsub, 0, &[Q]);
    kani::cover!(w & 1 != 0, "existing subscription removed");
    kani::cover!(w & 2 != 0, "unsubscribe from something not subscribed");
}
// NOT REGISTERED (does not finish within the budget, see reg/*.py): attributes removed
// #[kani::proof]
// #[kani::unwind(6)]
// // NOT REGISTERED (does not finish within the budget, see reg/*.py): attributes removed
// #[kani::stub(alloc::fmt::format, fmt_stub)]
fn c14_unsub_without_names() {
    let mut w = 0;
    w |= unsub_all_kind_case(&[(0, X), (0, Y)], false, 0);
    w |= unsub_all_kind_case(&[(0, X), (0, P)], false, 0);
    w |= unsub_all_kind_case(&[(0, X), (1, Y)], false, 1);
    w |= unsub_all_kind_case(&[(0, P), (0, Q)], true, 0);
    w |= unsub_all_kind_case(&[(0, P), (0, X)], true, 0);
    kani::cover!(w & 1 != 0, "two subscriptions dropped by one call");
    kani::cover!(w & 2 != 0, "the other kind of subscription survives");
}
/// UNSUBSCRIBE / PUNSUBSCRIBE by a connection that has nothing to unsubscribe: Redis still
/// acknowledges (one reply per named channel with the unchanged count; one reply when no name is given).
// NOT REGISTERED (does not finish within the budget, see reg/*.py): attributes removed
// #[kani::proof]
// #[kani::unwind(6)]
// // NOT REGISTERED (does not finish within the budget, see reg/*.py): attributes removed
// #[kani::stub(alloc::fmt::format, fmt_stub)]
fn c14_unsub_nothing_kf() {
    let mut w = 0;
    w |= named_case(&[], Op::Unsub, 0, &[X]);
    w |= named_case(&[(1, X)], Op::PUnsub, 0, &[P]);
    w |= unsub_all_kind_case(&[(0, P)], false, 0);
    kani::cover!(true, "reached");
}
// NOT REGISTERED (does not finish within the budget, see reg/*.py): attributes removed
// #[kani::proof]
// #[kani::unwind(6)]
// // NOT REGISTERED (does not finish within the budget, see reg/*.py): attributes removed
// #[kani::stub(alloc::fmt::format, fmt_stub)]
fn c14_unsubscribe_all_conn() {
    let mut w = 0;
    w |= unsubscribe_all_case(&[(0, X), (0, P)], 0);
    w |= unsubscribe_all_case(&[(0, X), (1, X)], 1);
    w |= unsubscribe_all_case(&[(0, X), (1, P)], 0);
    w |= unsubscribe_all_case(&[(0, P), (1, P)], 0);
    w |= unsubscribe_all_case(&[(1, Y)], 0);
    w |= unsubscribe_all_case(&[], 0);
    kani::cover!(w & 1 != 0, "connection with a channel and a pattern removed");
    kani::cover!(w & 2 != 0, "connection without subscriptions");
    kani::cover!(w & 4 != 0, "the other connection keeps its subscription");
}

// =================================================================== (iii) publish
/// matching relation used by the publish harnesses: PM[0] = "p*" matches the published channel,
/// PM[1] = "q?" matches it; enumerated concretely (a symbolic relation puts `receivers.push`
/// under a symbolic guard: out of memory).  The real matcher is decided separately by (i) and
/// exercised inside publish by c14_publish_real_glob.
static mut PM: [bool; 2] = [false, false];
fn pm_stub(pattern: &[u8], _channel: &[u8]) -> bool {
    unsafe {
        if pattern[0] == b'p' {
            PM[0]
        } else {
            PM[1]
        }
    }
}

/// publish on channel "x" (or `chan`) from the state `order`.  `region`: predicate of the
/// de-duplication defect = some connection holds two subscriptions that match the message.
fn publish_case(order: &[(usize, usize)], chan: &[u8], stub_pm: Option<[bool; 2]>, region: bool) -> u32 {
    let ids = any_ids();
    let m = model_of(order);
    let mgr = build(&m, order, &ids);
    let pm: [bool; 2] = match stub_pm {
        Some(x) => x,
        None => [ref_glob(b"p*", &[chan[0], chan[1]]), ref_glob(b"q?", &[chan[0], chan[1]])],
    };
    unsafe {
        PM = pm;
    }
    let on_x = bytes_eq(chan, NAMES[X]);
    let on_y = bytes_eq(chan, NAMES[Y]);
    // expected deliveries per connection and subscription
    let mut exp = [[false; NSUB]; NCONN];
    let mut total = 0;
    let mut dup = false;
    let mut c = 0;
    while c < NCONN {
        exp[c][X] = m[c][X] && on_x;
        exp[c][Y] = m[c][Y] && on_y;
        exp[c][P] = m[c][P] && pm[0];
        exp[c][Q] = m[c][Q] && pm[1];
        let k = exp[c][X] as usize + exp[c][Y] as usize + exp[c][P] as usize + exp[c][Q] as usize;
        total += k;
        dup |= k >= 2;
        c += 1;
    }
    let mut w = 0;
    if dup == region {
        let res = match mgr.publish(chan, b"msg") {
            Ok(v) => v,
            Err(_) => {
                assert!(false, "publish must not fail");
                Vec::new()
            }
        };
        // every expected delivery appears exactly once ...
        let mut c = 0;
        while c < NCONN {
            let mut n = 0;
            while n < NSUB {
                let mut cnt = 0;
                let mut k = 0;
                while k < 4 {
                    if k < res.len() && res[k].0 == ids[c] {
                        let same = match &res[k].1 {
                            None => !is_pat(n),
                            Some(pt) => is_pat(n) && bytes_eq(pt, NAMES[n]),
                        };
                        if same {
                            cnt += 1;
                        }
                    }
                    k += 1;
                }
                // (a channel delivery carries no name: both channel subscriptions map to `None`,
                //  at most one of them can match the published channel)
                let want = if is_pat(n) { exp[c][n] as usize } else { (exp[c][X] || exp[c][Y]) as usize };
                assert!(cnt >= want, "a matching subscription gets no delivery (one receiver entry per matching subscription)");
                assert!(cnt <= want, "a delivery to a connection/subscription that does not match, or a duplicate");
                n += 1;
            }
            c += 1;
        }
        // ... and nothing else is returned: PUBLISH's reply is the number of deliveries
        assert!(res.len() == total, "publish count == number of matching subscriptions");
        let mut k = 0;
        while k < 4 {
            if k < res.len() {
                assert!(res[k].0 == ids[0] || res[k].0 == ids[1], "delivery to an unknown connection");
            }
            k += 1;
        }
        check_state(&mgr, &m, &ids);
        w = (total == 0) as u32 | ((total == 1) as u32) << 1 | ((total >= 2) as u32) << 2 | (dup as u32) << 3;
        std::mem::forget(res);
    }
    std::mem::forget(mgr);
    w
}

/// all four matching relations
fn publish_all_pm(order: &[(usize, usize)], region: bool) -> u32 {
    publish_case(order, b"x", Some([false, false]), region)
        | publish_case(order, b"x", Some([true, false]), region)
        | publish_case(order, b"x", Some([false, true]), region)
        | publish_case(order, b"x", Some([true, true]), region)
}
/// only the relations that differ for a state with no "q?" subscription
fn publish_p_only(order: &[(usize, usize)], region: bool) -> u32 {
    publish_case(order, b"x", Some([false, false]), region) | publish_case(order, b"x", Some([true, false]), region)
}
// NOT REGISTERED (does not finish within the budget, see reg/*.py): attributes removed
// #[kani::proof]
// #[kani::unwind(6)]
// #[kani::stub(alloc::fmt::format, fmt_stub)]
// // NOT REGISTERED (does not finish within the budget, see reg/*.py): attributes removed
// #[kani::stub(pattern_matches, pm_stub)]
fn c14_publish_one_sub_rest() {
    let mut w = 0;
    w |= publish_case(&[], b"x", Some([false, false]), false);
    w |= publish_case(&[(0, X)], b"x", Some([false, false]), false);
    w |= publish_case(&[(0, Y)], b"x", Some([false, false]), false);
    w |= publish_p_only(&[(0, P)], false);
    kani::cover!(w & 1 != 0, "nobody receives");
    kani::cover!(w & 2 != 0, "one delivery");
}
// NOT REGISTERED (does not finish within the budget, see reg/*.py): attributes removed
// #[kani::proof]
// #[kani::unwind(6)]
// #[kani::stub(alloc::fmt::format, fmt_stub)]
// // NOT REGISTERED (does not finish within the budget, see reg/*.py): attributes removed
// #[kani::stub(pattern_matches, pm_stub)]
fn c14_publish_two_conns_rest() {
    let mut w = 0;
    w |= publish_case(&[(0, X), (1, X)], b"x", Some([false, false]), false);
    w |= publish_p_only(&[(0, X), (1, P)], false);
    w |= publish_p_only(&[(0, P), (1, P)], false);
    w |= publish_all_pm(&[(0, P), (1, Q)], false);
    w |= publish_case(&[(0, Y), (1, X)], b"x", Some([false, false]), false);
    kani::cover!(w & 4 != 0, "two deliveries");
    kani::cover!(w & 2 != 0, "one delivery");
}
// NOT REGISTERED (does not finish within the budget, see reg/*.py): attributes removed
// #[kani::proof]
// #[kani::unwind(6)]
// #[kani::stub(alloc::fmt::format, fmt_stub)]
// // NOT REGISTERED (does not finish within the budget, see reg/*.py): attributes removed
// #[kani::stub(pattern_matches, pm_stub)]
fn c14_publish_one_conn_rest() {
    let mut w = 0;
    w |= publish_p_only(&[(0, X), (0, P)], false);
    w |= publish_all_pm(&[(0, P), (0, Q)], false);
    w |= publish_case(&[(0, X), (0, Y)], b"x", Some([false, false]), false);
    kani::cover!(w & 2 != 0, "one delivery");
    kani::cover!(w & 1 != 0, "nobody receives");
}
/// a connection with two matching subscriptions (channel + pattern, or two patterns)
// NOT REGISTERED (does not finish within the budget, see reg/*.py): attributes removed
// #[kani::proof]
// #[kani::unwind(6)]
// #[kani::stub(alloc::fmt::format, fmt_stub)]
// // NOT REGISTERED (does not finish within the budget, see reg/*.py): attributes removed
// #[kani::stub(pattern_matches, pm_stub)]
fn c14_publish_dedup_kf() {
    let mut w = 0;
    w |= publish_p_only(&[(0, X), (0, P)], true);
    w |= publish_all_pm(&[(0, P), (0, Q)], true);
    kani::cover!(w & 8 != 0, "a connection with two matching subscriptions");
}
/// the real matcher inside publish: argument order and result are used as they should
// NOT REGISTERED (does not finish within the budget, see reg/*.py): attributes removed
// #[kani::proof]
// #[kani::unwind(7)]
// // NOT REGISTERED (does not finish within the budget, see reg/*.py): attributes removed
// #[kani::stub(alloc::fmt::format, fmt_stub)]
fn c14_publish_real_glob() {
    let mut w = 0;
    w |= publish_case(&[(0, P), (1, Q)], b"pa", None, false);
    w |= publish_case(&[(0, P), (1, Q)], b"qz", None, false);
    w |= publish_case(&[(0, P), (1, X)], b"zz", None, false);
    kani::cover!(w & 2 != 0, "one delivery");
    kani::cover!(w & 1 != 0, "nobody receives");
}

// ---- single-instance manager harnesses (one instance costs 100-200 s; see reg/c14_pubsub.py)
#[kani::proof]
#[kani::unwind(6)]
#[kani::stub(alloc::fmt::format, fmt_stub)]
fn c14_sub_second_conn() {
    let w = named_case(&[(0, X)], Op::Sub, 1, &[X]);
    kani::cover!(w & 2 != 0, "new subscription acknowledged");
}
#[kani::proof]
#[kani::unwind(6)]
#[kani::stub(alloc::fmt::format, fmt_stub)]
fn c14_unsub_last() {
    let w = named_case(&[(0, X)], Op::Unsub, 0, &[X]);
    kani::cover!(w & 1 != 0, "existing subscription removed");
}
// NOT REGISTERED (does not finish within the budget, see reg/*.py): attributes removed
// #[kani::proof]
// #[kani::unwind(6)]
// #[kani::stub(alloc::fmt::format, fmt_stub)]
// // NOT REGISTERED (does not finish within the budget, see reg/*.py): attributes removed
// #[kani::stub(pattern_matches, pm_stub)]
fn c14_publish_single_sub() {
    let w = publish_case(&[(0, X)], b"x", Some([false, false]), false);
    kani::cover!(w & 2 != 0, "one delivery");
}
#[kani::proof]
#[kani::unwind(6)]
#[kani::stub(alloc::fmt::format, fmt_stub)]
fn c14_unsub_unknown_conn_kf() {
    let w = named_case(&[], Op::Unsub, 0, &[X]);
    kani::cover!(true, "reached");
}

/// a client holding channel X AND pattern P unsubscribes its last channel: the pattern
/// subscription (and the connection record that carries it) must survive
#[kani::proof]
#[kani::unwind(6)]
#[kani::stub(alloc::fmt::format, fmt_stub)]
fn c14_unsub_channel_keeps_pattern() {
    let w = named_case(&[(0, X), (0, P)], Op::Unsub, 0, &[X]);
    kani::cover!(w & 1 != 0, "existing subscription removed");
}
