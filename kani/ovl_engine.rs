// Overlay for src/storage/engine.rs (child module => sees private items).
// Builders for engine states + harnesses for C01/C02/C03/C06/C08/C18/C19 at the engine level.
#![allow(dead_code, unused)]
use super::*;
use crate::storage::value::{StringEncoding, ValueMetadata};
use crate::verif_common::*;
use std::panic::catch_unwind;

pub fn mk_shard() -> Arc<RwLock<DatabaseShard>> {
    Arc::new(RwLock::new(DatabaseShard {
        data: HashMap::new(),
        expiring_keys: HashMap::new(),
        watch_tracker: ShardWatchTracker::new(),
    }))
}

pub fn mk_db() -> Database {
    let shards = if SHARDS_PER_DATABASE == 2 {
        vec![mk_shard(), mk_shard()]
    } else {
        vec![
            mk_shard(), mk_shard(), mk_shard(), mk_shard(), mk_shard(), mk_shard(), mk_shard(), mk_shard(),
            mk_shard(), mk_shard(), mk_shard(), mk_shard(), mk_shard(), mk_shard(), mk_shard(), mk_shard(),
        ]
    };
    assert!(shards.len() == SHARDS_PER_DATABASE);
    Database { shards }
}

/// A StorageEngine built directly: no sweeper thread, unlimited memory.
pub fn mk_engine1() -> StorageEngine {
    StorageEngine {
        databases: vec![mk_db()],
        memory_manager: Arc::new(MemoryManager::unlimited()),
        expiration_handle: None,
    }
}
pub fn mk_engine2() -> StorageEngine {
    StorageEngine {
        databases: vec![mk_db(), mk_db()],
        memory_manager: Arc::new(MemoryManager::unlimited()),
        expiration_handle: None,
    }
}

pub fn meta(expires_at: Option<Instant>) -> ValueMetadata {
    let t0 = mk_instant(T0_S, 0);
    ValueMetadata { expires_at, created_at: t0, last_accessed: t0, encoding: StringEncoding::Raw }
}

/// Put a value into the engine state directly (pre-state construction, no engine op involved).
pub fn put_raw(e: &StorageEngine, db: usize, key: &[u8], value: Value, expires_at: Option<Instant>) {
    let shard = e.get_shard(db, key).ok().unwrap();
    let mut g = shard.write().unwrap();
    g.data.insert(key.to_vec(), StoredValue { value, metadata: meta(expires_at) });
    if let Some(t) = expires_at {
        g.expiring_keys.insert(key.to_vec(), t);
    }
}

/// Observation of one key, bypassing all engine operations.  String contents are copied byte by
/// byte into a stack buffer: a `Vec::clone` (memcpy with a merged, symbolic length/pointer) after
/// a conditional write is resolved imprecisely by CBMC and produced a spurious counterexample.
pub struct SB {
    n: usize,
    d: [u8; 8],
}
impl SB {
    pub fn len(&self) -> usize {
        self.n
    }
    pub fn as_i64_abs(&self) -> Option<i64> {
        if self.n == 8 {
            Some(i64::from_le_bytes(self.d))
        } else {
            None
        }
    }
}
impl std::ops::Index<usize> for SB {
    type Output = u8;
    fn index(&self, i: usize) -> &u8 {
        assert!(i < self.n && i < 8, "observation index");
        &self.d[i]
    }
}
pub enum Obs {
    Absent,
    Str(SB),
    Other(u8),
}
pub fn peek_str(e: &StorageEngine, db: usize, key: &[u8]) -> Obs {
    let shard = e.get_shard(db, key).ok().unwrap();
    let g = shard.read().unwrap();
    match g.data.get(key) {
        None => Obs::Absent,
        Some(sv) => match &sv.value {
            Value::String(b) => {
                assert!(b.len() <= 8, "observation helper handles strings of up to 8 bytes");
                let mut d = [0u8; 8];
                let mut i = 0;
                while i < b.len() && i < 8 {
                    d[i] = b[i];
                    i += 1;
                }
                Obs::Str(SB { n: b.len(), d })
            }
            Value::List(_) => Obs::Other(1),
            Value::Set(_) => Obs::Other(2),
            Value::Hash(_) => Obs::Other(3),
            Value::SortedSet(_) => Obs::Other(4),
            Value::Stream(_) => Obs::Other(5),
        },
    }
}
pub fn peek_deadline(e: &StorageEngine, db: usize, key: &[u8]) -> Option<Option<Instant>> {
    let shard = e.get_shard(db, key).ok().unwrap();
    let g = shard.read().unwrap();
    g.data.get(key).map(|sv| sv.metadata.expires_at)
}
pub fn peek_index(e: &StorageEngine, db: usize, key: &[u8]) -> Option<Instant> {
    let shard = e.get_shard(db, key).ok().unwrap();
    let g = shard.read().unwrap();
    g.expiring_keys.get(key).cloned()
}

// ---------------------------------------------------------------- reference models

/// Redis GETRANGE (t_string.c getrangeCommand, 7.x).  Returns (lo, hi_inclusive) or None for "".
/// `alt_empty` is set when later Redis versions (8.x) answer "" instead (end still negative after
/// adding the length): both answers are accepted there.
fn model_getrange(len: usize, start: isize, end: isize) -> (Option<(usize, usize)>, bool) {
    let l = len as i128;
    let mut s = start as i128;
    let mut e = end as i128;
    if s < 0 && e < 0 && s > e {
        return (None, false);
    }
    if s < 0 {
        s += l;
    }
    if e < 0 {
        e += l;
    }
    let alt_empty = e < 0;
    if s < 0 {
        s = 0;
    }
    if e < 0 {
        e = 0;
    }
    if e >= l {
        e = l - 1;
    }
    if s > e || l == 0 {
        (None, alt_empty)
    } else {
        (Some((s as usize, e as usize)), alt_empty)
    }
}

// ---------------------------------------------------------------- C01 / C06 harnesses

/// GETRANGE on a present string of exactly N symbolic bytes, full-width symbolic start/end.
fn getrange_n<const N: usize>() {
    let e = mk_engine1();
    let v: [u8; N] = kani::any();
    put_raw(&e, 0, b"k", Value::String(v.to_vec()), None);
    let start: isize = kani::any();
    let end: isize = kani::any();
    let r = e.getrange(0, b"k", start, end);
    kani::cover!(true, "getrange returned");
    let got = match r {
        Ok(b) => b,
        Err(_) => {
            assert!(false, "GETRANGE on a string must not fail");
            Vec::new()
        }
    };
    let (m, alt) = model_getrange(N, start, end);
    match m {
        None => assert!(got.is_empty(), "GETRANGE must be empty here"),
        Some((lo, hi)) => {
            {
                assert!(got.len() == hi - lo + 1, "GETRANGE reply length");
                let mut i = 0;
                while i < got.len() {
                    assert!(got[i] == v[lo + i], "GETRANGE reply bytes");
                    i += 1;
                }
            }
        }
    }
    // read-only: the value is untouched
    match peek_str(&e, 0, b"k") {
        Obs::Str(b) => assert!(b.len() == N && (0..N).all(|i| b[i] == v[i]), "GETRANGE must not change the value"),
        _ => assert!(false, "GETRANGE must not change the key"),
    }
    std::mem::forget(e);
}


macro_rules! eng_harness {
    ($name:ident, $unwind:expr, $body:block) => {
        #[kani::proof]
        #[kani::unwind($unwind)]
        #[kani::stub(std::time::Instant::now, crate::verif_common::now_manual)]
        #[kani::stub(catch_unwind, cu_stub)]
        #[kani::stub(alloc::fmt::format, fmt_stub)]
        fn $name() $body
    };
}
/// same, with the decimal integer codec of `Value` replaced by an abstract, round-tripping codec
/// (8 little-endian bytes): std's i64 Display/FromStr on symbolic values does not fit in CBMC and
/// is trusted; everything around it (checked_add, error classes, key creation) is decided.
macro_rules! eng_harness_intcodec {
    ($name:ident, $unwind:expr, $body:block) => {
        #[kani::proof]
        #[kani::unwind($unwind)]
        #[kani::stub(std::time::Instant::now, crate::verif_common::now_manual)]
        #[kani::stub(catch_unwind, cu_stub)]
        #[kani::stub(alloc::fmt::format, fmt_stub)]
        #[kani::stub(crate::storage::value::Value::integer, value_integer_abs)]
        #[kani::stub(crate::storage::value::Value::as_integer, value_as_integer_abs)]
        fn $name() $body
    };
}
pub fn value_integer_abs(n: i64) -> Value {
    Value::String(n.to_le_bytes().to_vec())
}
pub fn value_as_integer_abs(v: &Value) -> Option<i64> {
    match v {
        Value::String(b) if b.len() == 8 => {
            Some(i64::from_le_bytes([b[0], b[1], b[2], b[3], b[4], b[5], b[6], b[7]]))
        }
        _ => None,
    }
}

/// with the exact Vec::new / Vec::push / ptr::copy stubs of verif_common (operations that push a
/// symbolic number of elements or shift a symbolic number of slots)
macro_rules! eng_harness_vec {
    ($name:ident, $unwind:expr, $body:block) => {
        #[kani::proof]
        #[kani::unwind($unwind)]
        #[kani::stub(std::time::Instant::now, crate::verif_common::now_manual)]
        #[kani::stub(catch_unwind, cu_stub)]
        #[kani::stub(alloc::fmt::format, fmt_stub)]
        #[kani::stub(std::vec::Vec::new, vec_new_cap8)]
        #[kani::stub(std::vec::Vec::push, vec_push_nogrow)]
        #[kani::stub(std::ptr::copy, ptr_copy_elementwise)]
        fn $name() $body
    };
}
eng_harness!(c01_getrange_len3, 5, { getrange_n::<3>(); });
eng_harness!(c01_getrange_len0, 5, { getrange_n::<0>(); });

// ---------------------------------------------------------------- generic one-step environment
// Key under test KA = "a" (shard 12 of 16), KQ = "q" (same shard), KB = "b" (shard 5).
// db 0 is the database under test; db 1 holds a sentinel under the SAME key name (C18).
pub const KA: &[u8] = b"a";
pub const KQ: &[u8] = b"q";
pub const KB: &[u8] = b"b";
pub const SENTINEL: u8 = 0x5a;

#[derive(Clone, Copy, PartialEq)]
pub enum Pre {
    Absent,
    Str2,
    List1,
    Set1,
    Hash1,
}

pub struct Env {
    pub e: StorageEngine,
    pub pre: Pre,
    /// symbolic content bytes of the pre-state value
    pub c: [u8; 2],
    pub base_a: u64,
    pub base_q: u64,
    pub base_b: u64,
    pub two: bool,
}

pub fn env(pre: Pre) -> Env {
    env_on(mk_engine1(), pre, false)
}
/// two databases, sentinel under the same key in db 1 (C18 harnesses)
pub fn env2(pre: Pre) -> Env {
    env_on(mk_engine2(), pre, true)
}
pub fn env_on(e: StorageEngine, pre: Pre, two: bool) -> Env {
    let c: [u8; 2] = kani::any();
    match pre {
        Pre::Absent => {}
        Pre::Str2 => put_raw(&e, 0, KA, Value::String(vec![c[0], c[1]]), None),
        Pre::List1 => {
            let mut l = VecDeque::new();
            l.push_back(vec![c[0]]);
            put_raw(&e, 0, KA, Value::List(l), None)
        }
        Pre::Set1 => {
            let mut h = HashSet::new();
            h.insert(vec![c[0]]);
            put_raw(&e, 0, KA, Value::Set(h), None)
        }
        Pre::Hash1 => {
            let mut h = HashMap::new();
            h.insert(vec![c[0]], vec![c[1]]);
            put_raw(&e, 0, KA, Value::Hash(h), None)
        }
    }
    // C18: same key name in another database
    if two {
        put_raw(&e, 1, KA, Value::String(vec![SENTINEL]), None);
    }
    // C08: the key under test and another key of the same shard are watched
    let base_a = e.register_watch(0, KA).ok().unwrap();
    let base_q = e.register_watch(0, KQ).ok().unwrap();
    Env { e, pre, c, base_a, base_q, base_b: 0, two }
}

impl Env {
    /// state of KA equals the pre-state (refused commands change nothing)
    pub fn unchanged(&self) -> bool {
        let shard = self.e.get_shard(0, KA).ok().unwrap();
        let g = shard.read().unwrap();
        match (self.pre, g.data.get(KA)) {
            (Pre::Absent, None) => true,
            (Pre::Str2, Some(sv)) => matches!(&sv.value, Value::String(b) if b.len() == 2 && b[0] == self.c[0] && b[1] == self.c[1])
                && sv.metadata.expires_at.is_none(),
            (Pre::List1, Some(sv)) => matches!(&sv.value, Value::List(l) if l.len() == 1 && l[0].len() == 1 && l[0][0] == self.c[0]),
            (Pre::Set1, Some(sv)) => matches!(&sv.value, Value::Set(h) if h.len() == 1 && h.contains(&vec![self.c[0]])),
            (Pre::Hash1, Some(sv)) => matches!(&sv.value, Value::Hash(h) if h.len() == 1 && h.get(&vec![self.c[0]]).map_or(false, |v| v.len() == 1 && v[0] == self.c[1])),
            _ => false,
        }
    }
    /// post-conditions shared by every one-step harness:
    ///  C08 soundness: if the observable state of KA changed, the watch on KA reports it;
    ///  C08 precision: watches on other keys (same shard, other shard) never report;
    ///  C18: the same key in database 1 is untouched.
    pub fn post(&self, changed: bool) {
        if changed {
            assert!(self.e.was_modified_since(0, KA, self.base_a).ok().unwrap(), "C08: a changed watched key must be reported as modified");
        }
        assert!(!self.e.was_modified_since(0, KQ, self.base_q).ok().unwrap(), "C08: untouched key in the same shard reported as modified");
        if self.two {
            match peek_str(&self.e, 1, KA) {
                Obs::Str(b) => assert!(b.len() == 1 && b[0] == SENTINEL, "C18: key in another database changed"),
                _ => assert!(false, "C18: key in another database changed"),
            }
            assert!(peek_index(&self.e, 1, KA).is_none());
        }
    }
    pub fn str_now(&self) -> Option<SB> {
        match peek_str(&self.e, 0, KA) {
            Obs::Str(b) => Some(b),
            _ => None,
        }
    }
    pub fn absent_now(&self) -> bool {
        matches!(peek_str(&self.e, 0, KA), Obs::Absent)
    }
    pub fn done(self) {
        std::mem::forget(self);
    }
}
pub fn is_wrongtype(e: &FerrousError) -> bool {
    matches!(e, FerrousError::Storage(StorageError::WrongType) | FerrousError::Command(CommandError::WrongType))
}

// ---------------------------------------------------------------- C01 string / key-space operations
fn op_append(pre: Pre) {
    let x = env(pre);
    let v: u8 = kani::any();
    let r = x.e.append(0, KA.to_vec(), vec![v]);
    kani::cover!(true, "append returned");
    match (pre, &r) {
        (Pre::Absent, Ok(n)) => {
            assert!(*n == 1, "APPEND on a missing key returns the length of the new value");
            let s = x.str_now();
            assert!(matches!(&s, Some(b) if b.len() == 1 && b[0] == v), "APPEND creates the key with the value");
            x.post(true);
        }
        (Pre::Str2, Ok(n)) => {
            assert!(*n == 3, "APPEND returns the new length");
            let s = x.str_now();
            assert!(matches!(&s, Some(b) if b.len() == 3 && b[0] == x.c[0] && b[1] == x.c[1] && b[2] == v), "APPEND concatenates");
            x.post(true);
        }
        (Pre::Absent, Err(_)) | (Pre::Str2, Err(_)) => assert!(false, "APPEND refused on absent/string key"),
        (_, Ok(_)) => assert!(false, "APPEND accepted on a non-string key"),
        (_, Err(er)) => {
            assert!(is_wrongtype(er), "APPEND on a non-string key must be WRONGTYPE");
            assert!(x.unchanged(), "refused APPEND changed the dataset");
            x.post(false);
        }
    }
    std::mem::forget(r);
    x.done();
}
/// APPEND k "" (empty value): creates an empty string on a missing key, leaves a string as it is
fn op_append_empty(pre: Pre) {
    let x = env(pre);
    let r = x.e.append(0, KA.to_vec(), Vec::new());
    kani::cover!(true, "append returned");
    match (pre, &r) {
        (Pre::Absent, Ok(n)) => {
            assert!(*n == 0, "APPEND k \"\" on a missing key returns 0");
            let s = x.str_now();
            assert!(matches!(&s, Some(b) if b.len() == 0), "APPEND k \"\" on a missing key creates the key as an empty string");
            x.post(true);
        }
        (Pre::Str2, Ok(n)) => {
            assert!(*n == 2, "APPEND k \"\" returns the unchanged length");
            let s = x.str_now();
            assert!(matches!(&s, Some(b) if b.len() == 2 && b[0] == x.c[0] && b[1] == x.c[1]), "APPEND k \"\" keeps the value");
            x.post(false);
        }
        _ => assert!(false, "APPEND k \"\" refused on an absent/string key"),
    }
    std::mem::forget(r);
    x.done();
}
eng_harness!(c01_append_empty_absent, 5, { op_append_empty(Pre::Absent); });
eng_harness!(c01_append_empty_str, 5, { op_append_empty(Pre::Str2); });
eng_harness!(c01_append_absent, 5, { op_append(Pre::Absent); });
eng_harness!(c01_append_str, 5, { op_append(Pre::Str2); });
eng_harness!(c01_append_list, 5, { op_append(Pre::List1); });

fn op_strlen(pre: Pre) {
    let x = env(pre);
    let r = x.e.strlen(0, KA);
    kani::cover!(true, "strlen returned");
    match (pre, &r) {
        (Pre::Absent, Ok(n)) => assert!(*n == 0),
        (Pre::Str2, Ok(n)) => assert!(*n == 2),
        (Pre::Absent, Err(_)) | (Pre::Str2, Err(_)) => assert!(false, "STRLEN refused"),
        (_, Ok(_)) => assert!(false, "STRLEN accepted on a non-string key"),
        (_, Err(er)) => assert!(is_wrongtype(er)),
    }
    assert!(x.unchanged(), "STRLEN is read-only");
    x.post(false);
    std::mem::forget(r);
    x.done();
}
eng_harness!(c01_strlen_absent, 5, { op_strlen(Pre::Absent); });
eng_harness!(c01_strlen_str, 5, { op_strlen(Pre::Str2); });
eng_harness!(c01_strlen_hash, 5, { op_strlen(Pre::Hash1); });

/// SET (engine set_value): overwrites ANY existing value and type, clears the TTL.
fn op_set(pre: Pre) {
    let x = env(pre);
    let v: [u8; 2] = kani::any();
    let r = x.e.set_string(0, KA.to_vec(), vec![v[0], v[1]]);
    kani::cover!(true, "set returned");
    assert!(r.is_ok(), "SET never fails");
    let s = x.str_now();
    assert!(matches!(&s, Some(b) if b.len() == 2 && b[0] == v[0] && b[1] == v[1]), "SET stores the value over any previous type");
    assert!(matches!(peek_deadline(&x.e, 0, KA), Some(None)), "SET without expiry leaves no TTL");
    x.post(true);
    std::mem::forget(r);
    x.done();
}
eng_harness!(c01_set_absent, 5, { op_set(Pre::Absent); });
eng_harness!(c01_set_str, 5, { op_set(Pre::Str2); });
eng_harness!(c01_set_list, 5, { op_set(Pre::List1); });

fn op_setnx(pre: Pre) {
    let x = env(pre);
    let v: u8 = kani::any();
    let r = x.e.set_string_nx(0, KA.to_vec(), vec![v]);
    kani::cover!(true, "setnx returned");
    match (pre, &r) {
        (Pre::Absent, Ok(true)) => {
            assert!(matches!(&x.str_now(), Some(b) if b.len() == 1 && b[0] == v));
            x.post(true);
        }
        (Pre::Absent, _) => assert!(false, "SETNX on a missing key must set it"),
        (_, Ok(false)) => {
            assert!(x.unchanged(), "SETNX on an existing key (any type) changes nothing");
            x.post(false);
        }
        (_, _) => assert!(false, "SETNX on an existing key must return 0"),
    }
    std::mem::forget(r);
    x.done();
}
eng_harness!(c01_setnx_absent, 5, { op_setnx(Pre::Absent); });
eng_harness!(c01_setnx_str, 5, { op_setnx(Pre::Str2); });
eng_harness!(c01_setnx_set, 5, { op_setnx(Pre::Set1); });

fn op_delete(pre: Pre) {
    let x = env(pre);
    let r = x.e.delete(0, KA);
    kani::cover!(true, "delete returned");
    match (pre, &r) {
        (Pre::Absent, Ok(false)) => {
            assert!(x.absent_now());
            x.post(false);
        }
        (Pre::Absent, _) => assert!(false, "DEL of a missing key returns 0"),
        (_, Ok(true)) => {
            assert!(x.absent_now(), "DEL removes a key of any type");
            assert!(peek_index(&x.e, 0, KA).is_none(), "DEL clears the expiry index");
            x.post(true);
        }
        (_, _) => assert!(false, "DEL of an existing key returns 1"),
    }
    std::mem::forget(r);
    x.done();
}
eng_harness!(c01_delete_absent, 5, { op_delete(Pre::Absent); });
eng_harness!(c01_delete_str, 5, { op_delete(Pre::Str2); });
eng_harness!(c01_delete_hash, 5, { op_delete(Pre::Hash1); });

fn op_exists_type(pre: Pre) {
    let x = env(pre);
    let r = x.e.exists(0, KA);
    assert!(matches!(r, Ok(b) if b == (pre != Pre::Absent)), "EXISTS");
    let t = x.e.key_type(0, KA);
    kani::cover!(true, "type returned");
    let want: &[u8] = match pre {
        Pre::Absent => b"none",
        Pre::Str2 => b"string",
        Pre::List1 => b"list",
        Pre::Set1 => b"set",
        Pre::Hash1 => b"hash",
    };
    match &t {
        Ok(s) => assert!(bytes_eq(s.as_bytes(), want), "TYPE"),
        Err(_) => assert!(false, "TYPE failed"),
    }
    assert!(x.unchanged());
    x.post(false);
    std::mem::forget(t);
    x.done();
}
eng_harness!(c01_exists_type_absent, 8, { op_exists_type(Pre::Absent); });
eng_harness!(c01_exists_type_str, 8, { op_exists_type(Pre::Str2); });
eng_harness!(c01_exists_type_list, 8, { op_exists_type(Pre::List1); });
eng_harness!(c01_exists_type_set, 8, { op_exists_type(Pre::Set1); });
eng_harness!(c01_exists_type_hash, 8, { op_exists_type(Pre::Hash1); });

fn op_get(pre: Pre) {
    let x = env(pre);
    let r = x.e.get_string(0, KA);
    kani::cover!(true, "get returned");
    match (pre, &r) {
        (Pre::Absent, Ok(None)) => {}
        (Pre::Str2, Ok(Some(b))) => assert!(b.len() == 2 && b[0] == x.c[0] && b[1] == x.c[1], "GET returns the stored bytes"),
        (Pre::Absent, _) | (Pre::Str2, _) => assert!(false, "GET reply"),
        (_, Err(er)) => assert!(is_wrongtype(er)),
        (_, Ok(_)) => assert!(false, "GET accepted on a non-string key"),
    }
    assert!(x.unchanged(), "GET is read-only");
    x.post(false);
    std::mem::forget(r);
    x.done();
}
eng_harness!(c01_get_absent, 5, { op_get(Pre::Absent); });
eng_harness!(c01_get_str, 5, { op_get(Pre::Str2); });
// (GET on a container value clones the whole container inside StorageEngine::get: out of memory in CBMC)

/// INCRBY with the abstract integer codec: every current value x every increment (all i64).
fn op_incrby_int() {
    let e = mk_engine1();
    let cur: i64 = kani::any();
    let inc: i64 = kani::any();
    put_raw(&e, 0, KA, value_integer_abs(cur), None);
    let base = e.register_watch(0, KA).ok().unwrap();
    let r = e.incr_by(0, KA.to_vec(), inc);
    kani::cover!(matches!(r, Err(_)), "overflow refused");
    kani::cover!(matches!(r, Ok(_)), "incremented");
    match cur.checked_add(inc) {
        Some(n) => {
            assert!(matches!(r, Ok(m) if m == n), "INCRBY returns current + increment");
            match peek_str(&e, 0, KA) {
                Obs::Str(b) => assert!(b.as_i64_abs() == Some(n), "INCRBY stores the new value"),
                _ => assert!(false),
            }
            assert!(e.was_modified_since(0, KA, base).ok().unwrap(), "C08: INCRBY must be reported to watchers");
        }
        None => {
            assert!(r.is_err(), "INCRBY overflow must be refused");
            match peek_str(&e, 0, KA) {
                Obs::Str(b) => assert!(b.as_i64_abs() == Some(cur), "refused INCRBY changes nothing"),
                _ => assert!(false),
            }
        }
    }
    std::mem::forget(r);
    std::mem::forget(e);
}
eng_harness_intcodec!(c01_incrby_int, 10, { op_incrby_int(); });

fn op_incrby_other(pre: Pre) {
    let x = env(pre);
    let inc: i64 = kani::any();
    let r = x.e.incr_by(0, KA.to_vec(), inc);
    kani::cover!(true, "incrby returned");
    match (pre, &r) {
        (Pre::Absent, Ok(n)) => {
            assert!(*n == inc, "INCRBY on a missing key starts from 0");
            match peek_str(&x.e, 0, KA) {
                Obs::Str(b) => assert!(b.as_i64_abs() == Some(inc)),
                _ => assert!(false),
            }
            x.post(true);
        }
        (Pre::Absent, Err(_)) => assert!(false, "INCRBY on a missing key refused"),
        // a 2-byte string is not an integer under the abstract codec (8 bytes), a list is not a string
        (_, Ok(_)) => assert!(false, "INCRBY accepted on a non-integer value"),
        (_, Err(_)) => {
            assert!(x.unchanged(), "refused INCRBY changed the dataset");
            x.post(false);
        }
    }
    std::mem::forget(r);
    x.done();
}
eng_harness_intcodec!(c01_incrby_absent, 10, { op_incrby_other(Pre::Absent); });
eng_harness_intcodec!(c01_incrby_nonint, 10, { op_incrby_other(Pre::Str2); });
eng_harness_intcodec!(c01_incrby_list, 10, { op_incrby_other(Pre::List1); });

/// RENAME a -> q (same shard) and a -> b (other shard): value and TTL travel, source disappears,
/// destination is replaced; missing source is an error without effect.
fn op_rename(pre: Pre, dst: &'static [u8], dst_exists: bool) {
    let e = mk_engine1();
    let c: [u8; 2] = kani::any();
    let dl = mk_instant(T0_S + 100, 7);
    if pre == Pre::Str2 {
        put_raw(&e, 0, KA, Value::String(vec![c[0], c[1]]), Some(dl));
    }
    if dst_exists {
        let mut l = VecDeque::new();
        l.push_back(vec![c[1]]);
        put_raw(&e, 0, dst, Value::List(l), None);
    }
    let base_a = e.register_watch(0, KA).ok().unwrap();
    let base_d = e.register_watch(0, dst).ok().unwrap();
    let r = e.rename(0, KA, dst.to_vec());
    kani::cover!(true, "rename returned");
    if pre == Pre::Str2 {
        assert!(r.is_ok(), "RENAME of an existing key succeeds");
        assert!(matches!(peek_str(&e, 0, KA), Obs::Absent), "RENAME removes the source");
        match peek_str(&e, 0, dst) {
            Obs::Str(b) => assert!(b.len() == 2 && b[0] == c[0] && b[1] == c[1], "RENAME moves the value"),
            _ => assert!(false, "RENAME must replace the destination"),
        }
        assert!(matches!(peek_deadline(&e, 0, dst), Some(Some(t)) if t == dl), "C02: the TTL travels with the value on RENAME");
        assert!(e.was_modified_since(0, dst, base_d).ok().unwrap(), "C08: RENAME must report the destination key as modified");
        assert!(e.was_modified_since(0, KA, base_a).ok().unwrap(), "C08: RENAME must report the source key as modified");
        // C02 index invariant: the index follows the value
        assert!(peek_index(&e, 0, KA).is_none(), "C02: stale expiry-index entry left under the old name");
        assert!(matches!(peek_index(&e, 0, dst), Some(t) if t == dl), "C02: expiry index not moved to the new name");
    } else {
        assert!(matches!(&r, Err(FerrousError::Command(CommandError::NoSuchKey))), "RENAME of a missing key is 'no such key'");
        if dst_exists {
            assert!(matches!(peek_str(&e, 0, dst), Obs::Other(1)), "refused RENAME changed the destination");
        } else {
            assert!(matches!(peek_str(&e, 0, dst), Obs::Absent));
        }
        assert!(!e.was_modified_since(0, dst, base_d).ok().unwrap(), "C08: refused RENAME reported a modification");
    }
    std::mem::forget(r);
    std::mem::forget(e);
}
eng_harness!(c01_rename_same_shard, 5, { op_rename(Pre::Str2, KQ, false); });
eng_harness!(c01_rename_over_existing, 5, { op_rename(Pre::Str2, KQ, true); });
eng_harness!(c01_rename_missing, 5, { op_rename(Pre::Absent, KQ, true); });
// (cross-shard RENAME orders its two locks by comparing shard addresses; CBMC runs out of memory
//  on that harness with and without field sensitivity - outside the claim)

// ---------------------------------------------------------------- C02 expiration (symbolic clock)
/// deadline D = T0 + (ds, dns), clock t = T0 + (ts, tns), all symbolic; returns (deadline, t>D, t<D)
fn sym_deadline_and_clock() -> (Instant, bool, bool) {
    let ds: u16 = kani::any();
    let dns: u32 = kani::any();
    let ts: u16 = kani::any();
    let tns: u32 = kani::any();
    kani::assume(dns < 1_000_000_000 && tns < 1_000_000_000);
    let d = mk_instant(T0_S + ds as i64, dns);
    set_clock(T0_S + ts as i64, tns);
    let after = (ts as i64, tns) > (ds as i64, dns);
    let before = (ts as i64, tns) < (ds as i64, dns);
    (d, after, before)
}

fn c02_read(op: u8) {
    let e = mk_engine1();
    let c: [u8; 2] = kani::any();
    let (d, after, before) = sym_deadline_and_clock();
    put_raw(&e, 0, KA, Value::String(vec![c[0], c[1]]), Some(d));
    kani::cover!(after, "clock past the deadline");
    kani::cover!(before, "clock before the deadline");
    match op {
        0 => {
            let r = e.get_string(0, KA);
            if after {
                assert!(matches!(&r, Ok(None)), "GET after the deadline must see no key");
                assert!(matches!(peek_str(&e, 0, KA), Obs::Absent), "lazily expired key is removed");
            }
            if before {
                assert!(matches!(&r, Ok(Some(b)) if b.len() == 2 && b[0] == c[0] && b[1] == c[1]), "GET before the deadline returns the intact value");
                assert!(matches!(peek_deadline(&e, 0, KA), Some(Some(t)) if t == d), "reading does not change the TTL");
            }
            std::mem::forget(r);
        }
        1 => {
            let r = e.exists(0, KA);
            if after {
                assert!(matches!(r, Ok(false)), "EXISTS after the deadline");
            }
            if before {
                assert!(matches!(r, Ok(true)), "EXISTS before the deadline");
            }
        }
        _ => {
            let v: u8 = kani::any();
            let r = e.set_string_nx(0, KA.to_vec(), vec![v]);
            if after {
                assert!(matches!(r, Ok(true)), "SETNX after the deadline sees no key and sets");
                assert!(matches!(peek_str(&e, 0, KA), Obs::Str(b) if b.len() == 1 && b[0] == v));
                assert!(matches!(peek_deadline(&e, 0, KA), Some(None)), "the new value has no TTL");
            }
            if before {
                assert!(matches!(r, Ok(false)), "SETNX before the deadline sees the key");
                match peek_str(&e, 0, KA) {
                    Obs::Str(b) => {
                        assert!(b.len() == 2, "SETNX before the deadline: value length intact");
                        assert!(b[0] == c[0] && b[1] == c[1], "SETNX before the deadline: value bytes intact");
                    }
                    _ => assert!(false, "SETNX before the deadline: key still a string"),
                }
            }
        }
    }
    std::mem::forget(e);
}
eng_harness!(c02_get_deadline, 5, { c02_read(0); });
eng_harness!(c02_exists_deadline, 5, { c02_read(1); });
eng_harness!(c02_setnx_deadline, 5, { c02_read(2); });

/// SET over a key with a TTL removes the TTL (value metadata).
eng_harness!(c02_set_clears_ttl, 5, {
    let e = mk_engine1();
    let c: [u8; 2] = kani::any();
    let d = mk_instant(T0_S + 50, 0);
    put_raw(&e, 0, KA, Value::String(vec![c[0]]), Some(d));
    let r = e.set_string(0, KA.to_vec(), vec![c[1]]);
    kani::cover!(true, "set returned");
    assert!(r.is_ok());
    assert!(matches!(peek_deadline(&e, 0, KA), Some(None)), "overwriting with SET removes the TTL");
    std::mem::forget(e);
});

/// EXPIRE / PERSIST / TTL on a live key.
eng_harness!(c02_expire_persist_ttl, 5, {
    let e = mk_engine1();
    let c: [u8; 2] = kani::any();
    put_raw(&e, 0, KA, Value::String(vec![c[0], c[1]]), None);
    let secs: u32 = kani::any();
    let nanos: u32 = kani::any();
    kani::assume(nanos < 1_000_000_000);
    let dur = Duration::new(secs as u64, nanos);
    let base = e.register_watch(0, KA).ok().unwrap();
    // no TTL yet
    assert!(matches!(e.ttl(0, KA), Ok(None)));
    assert!(matches!(e.pttl(0, KA), Ok(-1)), "PTTL -1 for a key without TTL");
    assert!(matches!(e.pttl(0, KB), Ok(-2)), "PTTL -2 for a missing key");
    let r = e.expire(0, KA, dur);
    kani::cover!(true, "expire returned");
    assert!(matches!(r, Ok(true)), "EXPIRE on an existing key");
    let want = mk_instant(T0_S + secs as i64, nanos);
    assert!(matches!(peek_deadline(&e, 0, KA), Some(Some(t)) if t == want), "deadline = now + ttl");
    assert!(matches!(peek_str(&e, 0, KA), Obs::Str(b) if b.len() == 2 && b[0] == c[0] && b[1] == c[1]), "EXPIRE keeps the value");
    assert!(e.was_modified_since(0, KA, base).ok().unwrap(), "C08: EXPIRE on a watched key must be reported");
    assert!(matches!(e.ttl(0, KA), Ok(Some(x)) if x == dur), "TTL reports the remaining time");
    assert!(matches!(e.expire(0, KB, dur), Ok(false)), "EXPIRE on a missing key");
    // PERSIST
    let base2 = e.register_watch(0, KA).ok().unwrap();
    let p = e.persist(0, KA);
    assert!(matches!(p, Ok(true)), "PERSIST removes an existing TTL");
    assert!(matches!(peek_deadline(&e, 0, KA), Some(None)));
    assert!(peek_index(&e, 0, KA).is_none(), "PERSIST clears the expiry index");
    assert!(e.was_modified_since(0, KA, base2).ok().unwrap(), "C08: PERSIST on a watched key must be reported");
    assert!(matches!(e.persist(0, KA), Ok(false)), "PERSIST without TTL returns 0");
    std::mem::forget(e);
});

/// Representative operations that must treat a key past its deadline as absent.
fn c02_expired_op(op: u8) {
    let e = mk_engine1();
    let c: [u8; 2] = kani::any();
    let (d, after, _before) = sym_deadline_and_clock();
    kani::assume(after);
    put_raw(&e, 0, KA, Value::String(vec![c[0], c[1]]), Some(d));
    kani::cover!(true, "expired pre-state");
    match op {
        0 => assert!(matches!(e.strlen(0, KA), Ok(0)), "STRLEN of a key past its deadline must be 0"),
        1 => assert!(matches!(e.delete(0, KA), Ok(false)), "DEL of a key past its deadline must return 0"),
        2 => {
            let r = e.key_type(0, KA);
            assert!(matches!(&r, Ok(s) if bytes_eq(s.as_bytes(), b"none")), "TYPE of a key past its deadline must be none");
            std::mem::forget(r);
        }
        3 => assert!(matches!(e.pttl(0, KA), Ok(-2)), "PTTL of a key past its deadline must be -2"),
        4 => {
            let r = e.append(0, KA.to_vec(), vec![c[1]]);
            assert!(matches!(r, Ok(1)), "APPEND to a key past its deadline must start from an empty value");
        }
        _ => {
            let r = e.expire(0, KA, Duration::new(10, 0));
            assert!(matches!(r, Ok(false)), "EXPIRE on a key past its deadline must return 0");
        }
    }
    std::mem::forget(e);
}
eng_harness!(c02_expired_strlen_kf, 5, { c02_expired_op(0); });
eng_harness!(c02_expired_delete_kf, 5, { c02_expired_op(1); });
eng_harness!(c02_expired_type_kf, 8, { c02_expired_op(2); });
eng_harness!(c02_expired_pttl_kf, 5, { c02_expired_op(3); });
eng_harness!(c02_expired_append_kf, 5, { c02_expired_op(4); });
eng_harness!(c02_expired_expire_kf, 5, { c02_expired_op(5); });

// ---------------------------------------------------------------- C06: deadline arithmetic
eng_harness!(c06_expire_any_duration, 5, {
    let e = mk_engine1();
    put_raw(&e, 0, KA, Value::String(vec![1]), None);
    let secs: u64 = kani::any();
    let nanos: u32 = kani::any();
    kani::assume(nanos < 1_000_000_000);
    let r = e.expire(0, KA, Duration::new(secs, nanos));
    kani::cover!(r.is_ok(), "expire accepted");
    // whatever the duration: no panic; if accepted the key has a deadline
    if let Ok(true) = r {
        assert!(matches!(peek_deadline(&e, 0, KA), Some(Some(_))));
    }
    std::mem::forget(e);
});
eng_harness!(c06_setex_any_duration, 5, {
    let e = mk_engine1();
    let secs: u64 = kani::any();
    let nanos: u32 = kani::any();
    kani::assume(nanos < 1_000_000_000);
    let r = e.set_string_ex(0, KA.to_vec(), vec![1], Duration::new(secs, nanos));
    kani::cover!(r.is_ok(), "set ex accepted");
    std::mem::forget(r);
    std::mem::forget(e);
});

// ---------------------------------------------------------------- C02: the sweeper's removal step
// One pass of expiration_cleanup_loop itself does not fit (a Vec filled by a symbolic number of
// pushes); its per-key step `DatabaseShard::remove_if_expired` is decided here on a shard built
// on the stack, and Engine M decides on the MIR that the sweeper removes keys ONLY through it.
fn sweeper_step(has_deadline: bool, has_index: bool) {
    let c: u8 = kani::any();
    let (ds, dn): (u16, u32) = (kani::any(), kani::any());
    let (is_, in_): (u16, u32) = (kani::any(), kani::any());
    let (ts, tn): (u16, u32) = (kani::any(), kani::any());
    kani::assume(dn < 1_000_000_000 && in_ < 1_000_000_000 && tn < 1_000_000_000);
    let d = mk_instant(T0_S + ds as i64, dn);
    let ix = mk_instant(T0_S + is_ as i64, in_);
    let now = mk_instant(T0_S + ts as i64, tn);
    let mut sh = DatabaseShard { data: HashMap::new(), expiring_keys: HashMap::new(), watch_tracker: ShardWatchTracker::new() };
    sh.data.insert(KA.to_vec(), StoredValue { value: Value::String(vec![c]), metadata: meta(if has_deadline { Some(d) } else { None }) });
    if has_index {
        sh.expiring_keys.insert(KA.to_vec(), ix);
    }
    let base = sh.watch_tracker.register_watch(KA);
    let r = sh.remove_if_expired(KA, now);
    let passed = has_deadline && (ds as i64, dn) <= (ts as i64, tn);
    kani::cover!(passed || !has_deadline, "deadline passed (or no deadline at all)");
    kani::cover!(!passed, "no deadline or deadline in the future");
    if passed {
        assert!(r.is_some(), "a key whose stored deadline has passed is removed");
        assert!(sh.data.get(KA).is_none());
        assert!(sh.expiring_keys.get(KA).is_none());
        assert!(sh.watch_tracker.get_key_counter(KA) > base, "C08: expiry by the sweeper is reported to watchers");
    } else {
        assert!(r.is_none(), "the sweeper must never delete a key that has no TTL or whose deadline has not passed (stale index entries included)");
        assert!(matches!(sh.data.get(KA), Some(sv) if matches!(&sv.value, Value::String(b) if b.len() == 1 && b[0] == c)), "value intact");
        // the index is brought back in step with the value
        match (has_deadline, sh.expiring_keys.get(KA)) {
            (true, Some(t)) => assert!(*t == d, "index corrected to the stored deadline"),
            (false, None) => {}
            _ => assert!(false, "index out of step with the value after the sweeper step"),
        }
        assert!(sh.watch_tracker.get_key_counter(KA) == base, "C08: no modification reported for a key the sweeper left alone");
    }
    std::mem::forget(r);
    std::mem::forget(sh);
}
eng_harness!(c02_sweepstep_nottl_staleidx, 5, { sweeper_step(false, true); });
eng_harness!(c02_sweepstep_ttl_idx, 5, { sweeper_step(true, true); });
eng_harness!(c02_sweepstep_ttl_noidx, 5, { sweeper_step(true, false); });

// ---------------------------------------------------------------- C08 / C18: FLUSHDB
/// Two connections WATCH the same key; the key is (or is not) modified; one of them UNWATCHes.
/// The other connection's EXEC check must still see the modification - and must not see one
/// that never happened.
eng_harness!(c08_two_watchers_unwatch, 5, {
    let e = mk_engine1();
    let c: [u8; 2] = kani::any();
    put_raw(&e, 0, KA, Value::String(vec![c[0], c[1]]), None);
    let base1 = e.register_watch(0, KA).ok().unwrap();
    let base2 = e.register_watch(0, KA).ok().unwrap();
    let modify: bool = kani::any();
    if modify {
        let v: u8 = kani::any();
        assert!(e.append(0, KA.to_vec(), vec![v]).is_ok());
    }
    assert!(e.unregister_watch(0, KA).is_ok());
    kani::cover!(modify, "the watched key was modified before the other connection's UNWATCH");
    assert!(matches!(e.was_modified_since(0, KA, base2), Ok(m) if m == modify), "C08: another connection's UNWATCH must not hide (or invent) a modification of a key this connection watches");
    let _ = base1;
    std::mem::forget(e);
});
eng_harness!(c08_flushdb_watch, 5, {
    let e = mk_engine2();
    let c: u8 = kani::any();
    put_raw(&e, 0, KA, Value::String(vec![c]), Some(mk_instant(T0_S + 9, 0)));
    put_raw(&e, 1, KA, Value::String(vec![SENTINEL]), None);
    let base = e.register_watch(0, KA).ok().unwrap();
    let base_other_db = e.register_watch(1, KA).ok().unwrap();
    let r = e.flush_db(0);
    kani::cover!(true, "flush returned");
    assert!(r.is_ok());
    assert!(matches!(peek_str(&e, 0, KA), Obs::Absent), "FLUSHDB empties the selected database");
    assert!(peek_index(&e, 0, KA).is_none(), "FLUSHDB clears the expiry index");
    assert!(e.was_modified_since(0, KA, base).ok().unwrap(), "C08: FLUSHDB must be reported to watchers of a flushed key");
    assert!(matches!(peek_str(&e, 1, KA), Obs::Str(b) if b.len() == 1 && b[0] == SENTINEL), "C18: FLUSHDB emptied another database");
    assert!(!e.was_modified_since(1, KA, base_other_db).ok().unwrap(), "C08/C18: FLUSHDB of db 0 reported a key of db 1 as modified");
    std::mem::forget(e);
});

// ---------------------------------------------------------------- C03 lists
/// engine with key 'a' holding a list of N one-byte symbolic elements (N concrete)
fn list_env<const N: usize>() -> (StorageEngine, [u8; N], u64) {
    let e = mk_engine1();
    let c: [u8; N] = kani::any();
    if N > 0 {
        let mut l = VecDeque::new();
        let mut i = 0;
        while i < N {
            l.push_back(vec![c[i]]);
            i += 1;
        }
        put_raw(&e, 0, KA, Value::List(l), None);
    }
    let base = e.register_watch(0, KA).ok().unwrap();
    (e, c, base)
}
/// in-place comparison of the list under 'a' with `want[..n]` (one-byte elements); n == 0 means the key must not exist
fn list_is(e: &StorageEngine, want: &[u8], n: usize) -> bool {
    let shard = e.get_shard(0, KA).ok().unwrap();
    let g = shard.read().unwrap();
    match g.data.get(KA) {
        None => n == 0,
        Some(sv) => match &sv.value {
            Value::List(l) => {
                if n == 0 || l.len() != n {
                    return false;
                }
                let mut i = 0;
                while i < n {
                    if l[i].len() != 1 || l[i][0] != want[i] {
                        return false;
                    }
                    i += 1;
                }
                true
            }
            _ => false,
        },
    }
}
/// Redis index normalisation for LINDEX/LSET
fn norm_index(len: usize, index: isize) -> Option<usize> {
    let l = len as i128;
    let mut i = index as i128;
    if i < 0 {
        i += l;
    }
    if i >= 0 && i < l {
        Some(i as usize)
    } else {
        None
    }
}
/// Redis LRANGE/LTRIM normalisation: None = empty range
fn norm_range(len: usize, start: isize, stop: isize) -> Option<(usize, usize)> {
    let l = len as i128;
    let mut s = start as i128;
    let mut e = stop as i128;
    if s < 0 {
        s += l;
    }
    if e < 0 {
        e += l;
    }
    if s < 0 {
        s = 0;
    }
    if s > e || s >= l {
        return None;
    }
    if e >= l {
        e = l - 1;
    }
    Some((s as usize, e as usize))
}

fn op_lindex_lset<const N: usize>() {
    let (e, c, base) = list_env::<N>();
    let index: isize = kani::any();
    let r = e.lindex(0, KA, index);
    kani::cover!(matches!(&r, Ok(Some(_))), "element found");
    match (norm_index(N, index), &r) {
        (Some(i), Ok(Some(b))) => assert!(b.len() == 1 && b[0] == c[i], "LINDEX returns the element at the normalised index"),
        (None, Ok(None)) => {}
        _ => assert!(false, "LINDEX reply differs from the Redis model"),
    }
    assert!(list_is(&e, &c, N), "LINDEX is read-only");
    let v: u8 = kani::any();
    let w = e.lset(0, KA.to_vec(), index, vec![v]);
    match (norm_index(N, index), &w) {
        (Some(i), Ok(())) => {
            let mut want = c;
            want[i] = v;
            assert!(list_is(&e, &want, N), "LSET replaces exactly the addressed element");
            assert!(e.was_modified_since(0, KA, base).ok().unwrap(), "C08: LSET must be reported");
        }
        (None, Err(_)) => {
            assert!(list_is(&e, &c, N), "refused LSET changes nothing");
            assert!(!e.was_modified_since(0, KA, base).ok().unwrap());
        }
        _ => assert!(false, "LSET outcome differs from the Redis model"),
    }
    std::mem::forget(r);
    std::mem::forget(w);
    std::mem::forget(e);
}
eng_harness!(c03_lindex_lset_n3, 6, { op_lindex_lset::<3>(); });
eng_harness!(c03_lindex_lset_n1, 6, { op_lindex_lset::<1>(); });

fn op_lrange<const N: usize>() {
    let (e, c, _base) = list_env::<N>();
    let start: isize = kani::any();
    let stop: isize = kani::any();
    let r = std::mem::ManuallyDrop::new(e.lrange(0, KA, start, stop));
    kani::cover!(matches!(&*r, Ok(v) if v.len() == N), "whole list returned");
    match (&*r, norm_range(N, start, stop)) {
        (Ok(v), None) => assert!(v.is_empty(), "LRANGE must be empty here (start > stop or out of range after normalisation)"),
        (Ok(v), Some((s, t))) => {
            assert!(v.len() == t - s + 1, "LRANGE returns stop-start+1 elements");
            let mut i = 0;
            while i < v.len() {
                assert!(v[i].len() == 1 && v[i][0] == c[s + i], "LRANGE returns the elements in list order");
                i += 1;
            }
        }
        (Err(_), _) => assert!(false, "LRANGE on a list failed"),
    }
    assert!(list_is(&e, &c, N), "LRANGE is read-only");
    std::mem::forget(e);
}
eng_harness_vec!(c03_lrange_n3, 6, { op_lrange::<3>(); });
eng_harness_vec!(c03_lrange_n2, 6, { op_lrange::<2>(); });

fn op_ltrim<const N: usize>() {
    let (e, c, base) = list_env::<N>();
    let start: isize = kani::any();
    let stop: isize = kani::any();
    let r = e.ltrim(0, KA.to_vec(), start, stop);
    kani::cover!(true, "ltrim returned");
    assert!(r.is_ok(), "LTRIM on a list succeeds");
    match norm_range(N, start, stop) {
        None => {
            assert!(list_is(&e, &c, 0), "LTRIM to an empty range removes the key");
            assert!(e.was_modified_since(0, KA, base).ok().unwrap(), "C08: LTRIM that empties the list must be reported");
        }
        Some((s, t)) => {
            let mut want = [0u8; N];
            let mut i = 0;
            while i < t - s + 1 {
                want[i] = c[s + i];
                i += 1;
            }
            assert!(list_is(&e, &want, t - s + 1), "LTRIM keeps exactly the elements of the range, in order");
            if t - s + 1 != N {
                assert!(e.was_modified_since(0, KA, base).ok().unwrap(), "C08: LTRIM that removes elements must be reported");
            }
        }
    }
    std::mem::forget(e);
}
eng_harness_vec!(c03_ltrim_n3, 6, { op_ltrim::<3>(); });

fn op_push_pop<const N: usize>(which: u8) {
    let (e, c, base) = list_env::<N>();
    let v: [u8; 2] = kani::any();
    let mut want = [0u8; 5];
    match which {
        0 => {
            // LPUSH a x y  => y x c...
            let r = e.lpush(0, KA.to_vec(), vec![vec![v[0]], vec![v[1]]]);
            assert!(matches!(r, Ok(n) if n == N + 2), "LPUSH returns the new length");
            want[0] = v[1];
            want[1] = v[0];
            let mut i = 0;
            while i < N {
                want[2 + i] = c[i];
                i += 1;
            }
            assert!(list_is(&e, &want, N + 2), "LPUSH prepends the elements one after another");
            assert!(e.was_modified_since(0, KA, base).ok().unwrap(), "C08: LPUSH must be reported");
        }
        1 => {
            let r = e.rpush(0, KA.to_vec(), vec![vec![v[0]], vec![v[1]]]);
            assert!(matches!(r, Ok(n) if n == N + 2), "RPUSH returns the new length");
            let mut i = 0;
            while i < N {
                want[i] = c[i];
                i += 1;
            }
            want[N] = v[0];
            want[N + 1] = v[1];
            assert!(list_is(&e, &want, N + 2), "RPUSH appends in order");
            assert!(e.was_modified_since(0, KA, base).ok().unwrap(), "C08: RPUSH must be reported");
        }
        2 => {
            let r = e.lpop(0, KA);
            if N == 0 {
                assert!(matches!(&r, Ok(None)), "LPOP on a missing key is nil");
            } else {
                assert!(matches!(&r, Ok(Some(b)) if b.len() == 1 && b[0] == c[0]), "LPOP returns the head");
                let mut i = 1;
                while i < N {
                    want[i - 1] = c[i];
                    i += 1;
                }
                assert!(list_is(&e, &want, N - 1), "LPOP removes the head; an emptied list ceases to exist");
                assert!(e.was_modified_since(0, KA, base).ok().unwrap(), "C08: LPOP must be reported");
            }
            std::mem::forget(r);
        }
        _ => {
            let r = e.rpop(0, KA);
            if N == 0 {
                assert!(matches!(&r, Ok(None)), "RPOP on a missing key is nil");
            } else {
                assert!(matches!(&r, Ok(Some(b)) if b.len() == 1 && b[0] == c[N - 1]), "RPOP returns the tail");
                let mut i = 0;
                while i + 1 < N {
                    want[i] = c[i];
                    i += 1;
                }
                assert!(list_is(&e, &want, N - 1), "RPOP removes the tail; an emptied list ceases to exist");
                assert!(e.was_modified_since(0, KA, base).ok().unwrap(), "C08: RPOP must be reported");
            }
            std::mem::forget(r);
        }
    }
    kani::cover!(true, "operation returned");
    std::mem::forget(e);
}
eng_harness_vec!(c03_lpush_n0, 6, { op_push_pop::<0>(0); });
eng_harness_vec!(c03_lpush_n2, 6, { op_push_pop::<2>(0); });
eng_harness_vec!(c03_rpush_n0, 6, { op_push_pop::<0>(1); });
eng_harness_vec!(c03_rpush_n2, 6, { op_push_pop::<2>(1); });
eng_harness_vec!(c03_lpop_n0, 6, { op_push_pop::<0>(2); });
eng_harness_vec!(c03_lpop_n1, 6, { op_push_pop::<1>(2); });
eng_harness_vec!(c03_lpop_n2, 6, { op_push_pop::<2>(2); });
eng_harness_vec!(c03_rpop_n1, 6, { op_push_pop::<1>(3); });
eng_harness_vec!(c03_rpop_n2, 6, { op_push_pop::<2>(3); });

/// LREM count elem on a 3-element list with symbolic (hence possibly duplicate) contents.
fn op_lrem(sign: i8) {
    let (e, c, base) = list_env::<3>();
    let count: isize = kani::any();
    // the three branches of LREM are separate harnesses (count < 0, == 0, > 0)
    kani::assume((sign < 0 && count < 0) || (sign == 0 && count == 0) || (sign > 0 && count > 0));
    let x: u8 = kani::any();
    let r = e.lrem(0, KA.to_vec(), count, vec![x]);
    // model
    let mut keep = [true; 3];
    let mut removed = 0usize;
    let limit: u128 = if count == 0 { 3 } else { count.unsigned_abs() as u128 };
    if count >= 0 {
        let mut i = 0;
        while i < 3 {
            if c[i] == x && (removed as u128) < limit {
                keep[i] = false;
                removed += 1;
            }
            i += 1;
        }
    } else {
        let mut i = 3;
        while i > 0 {
            i -= 1;
            if c[i] == x && (removed as u128) < limit {
                keep[i] = false;
                removed += 1;
            }
        }
    }
    let mut want = [0u8; 3];
    let mut n = 0;
    let mut i = 0;
    while i < 3 {
        if keep[i] {
            want[n] = c[i];
            n += 1;
        }
        i += 1;
    }
    kani::cover!(removed == 2, "two duplicates removed");
    assert!(matches!(r, Ok(k) if k == removed), "LREM returns the number of removed elements");
    assert!(list_is(&e, &want, n), "LREM removes the first/last |count| occurrences and keeps the order of the rest");
    if removed > 0 {
        assert!(e.was_modified_since(0, KA, base).ok().unwrap(), "C08: LREM that removed something must be reported");
    } else {
        assert!(!e.was_modified_since(0, KA, base).ok().unwrap(), "C08: LREM that removed nothing reported a modification");
    }
    std::mem::forget(e);
}
// (symbolic count: out of memory; see op_lrem_concrete)

// ---------------------------------------------------------------- C03 sets and hashes
fn set_is(e: &StorageEngine, want: &[u8], n: usize) -> bool {
    let shard = e.get_shard(0, KA).ok().unwrap();
    let g = shard.read().unwrap();
    match g.data.get(KA) {
        None => n == 0,
        Some(sv) => match &sv.value {
            Value::Set(h) => {
                if n == 0 || h.len() != n {
                    return false;
                }
                let mut i = 0;
                while i < n {
                    if !h.contains(&vec![want[i]]) {
                        return false;
                    }
                    i += 1;
                }
                true
            }
            _ => false,
        },
    }
}
/// SADD / SREM / SISMEMBER / SCARD on a set {a0, a1} (distinct symbolic members)
fn op_set_basic(which: bool) {
    let e = mk_engine1();
    let c: [u8; 2] = kani::any();
    kani::assume(c[0] != c[1]);
    let mut h = HashSet::new();
    h.insert(vec![c[0]]);
    h.insert(vec![c[1]]);
    put_raw(&e, 0, KA, Value::Set(h), None);
    let base = e.register_watch(0, KA).ok().unwrap();
    let x: u8 = kani::any();
    let member = x == c[0] || x == c[1];
    assert!(matches!(e.sismember(0, KA, &[x]), Ok(b) if b == member), "SISMEMBER");
    assert!(matches!(e.scard(0, KA), Ok(2)), "SCARD");
    if which {
        let r = e.sadd(0, KA.to_vec(), vec![vec![x], vec![x]]);
        assert!(matches!(r, Ok(n) if n == if member { 0 } else { 1 }), "SADD counts each new member once");
        if member {
            assert!(set_is(&e, &c, 2), "SADD of an existing member changes nothing");
            assert!(!e.was_modified_since(0, KA, base).ok().unwrap(), "C08: SADD that added nothing reported a modification");
        } else {
            assert!(set_is(&e, &[c[0], c[1], x], 3), "SADD adds the member");
            assert!(e.was_modified_since(0, KA, base).ok().unwrap(), "C08: SADD must be reported");
        }
    } else {
        let r = e.srem(0, KA, &[vec![x]]);
        assert!(matches!(r, Ok(n) if n == if member { 1 } else { 0 }), "SREM count");
        if member {
            let other = if x == c[0] { c[1] } else { c[0] };
            assert!(set_is(&e, &[other], 1), "SREM removes exactly the member");
            assert!(e.was_modified_since(0, KA, base).ok().unwrap(), "C08: SREM must be reported");
        } else {
            assert!(set_is(&e, &c, 2));
        }
    }
    kani::cover!(!member, "x is not a member");
    std::mem::forget(e);
}
/// SADD of two members (possibly equal) to a MISSING key: the key is created, the reply counts each
/// distinct member once.
eng_harness_vec!(c03_sadd_absent, 6, {
    let e = mk_engine1();
    let base = e.register_watch(0, KA).ok().unwrap();
    let x: u8 = kani::any();
    let y: u8 = kani::any();
    let r = e.sadd(0, KA.to_vec(), vec![vec![x], vec![y]]);
    kani::cover!(x == y, "the same member twice in one SADD");
    if x == y {
        assert!(matches!(r, Ok(1)), "SADD on a missing key counts a repeated member once");
        assert!(set_is(&e, &[x], 1), "SADD creates the set with the member");
    } else {
        assert!(matches!(r, Ok(2)), "SADD on a missing key counts both members");
        assert!(set_is(&e, &[x, y], 2), "SADD creates the set with both members");
    }
    assert!(matches!(e.scard(0, KA), Ok(n) if n == if x == y { 1 } else { 2 }), "SCARD agrees with the reply");
    assert!(e.was_modified_since(0, KA, base).ok().unwrap(), "C08: SADD must be reported");
    std::mem::forget(e);
});
eng_harness_vec!(c03_set_sadd, 6, { op_set_basic(true); });
eng_harness_vec!(c03_set_srem, 6, { op_set_basic(false); });

/// SREM of the last member removes the key.
eng_harness!(c03_srem_last, 6, {
    let x = env(Pre::Set1);
    let r = x.e.srem(0, KA, &[vec![x.c[0]]]);
    kani::cover!(true, "srem returned");
    assert!(matches!(r, Ok(1)));
    assert!(x.absent_now(), "a set that becomes empty ceases to exist as a key");
    x.post(true);
    x.done();
});

fn hash_is(e: &StorageEngine, f: &[u8], v: &[u8], n: usize) -> bool {
    let shard = e.get_shard(0, KA).ok().unwrap();
    let g = shard.read().unwrap();
    match g.data.get(KA) {
        None => n == 0,
        Some(sv) => match &sv.value {
            Value::Hash(h) => {
                if n == 0 || h.len() != n {
                    return false;
                }
                let mut i = 0;
                while i < n {
                    match h.get(&vec![f[i]]) {
                        Some(b) if b.len() == 1 && b[0] == v[i] => {}
                        _ => return false,
                    }
                    i += 1;
                }
                true
            }
            _ => false,
        },
    }
}
/// HSET / HGET / HDEL / HLEN / HEXISTS on a hash {f0: v0}
fn op_hash_basic(which: bool) {
    let x = env(Pre::Hash1);
    let f: u8 = kani::any();
    let v: u8 = kani::any();
    let same = f == x.c[0];
    let g = x.e.hget(0, KA, &[f]);
    match (&g, same) {
        (Ok(Some(b)), true) => assert!(b.len() == 1 && b[0] == x.c[1], "HGET returns the stored value"),
        (Ok(None), false) => {}
        _ => assert!(false, "HGET reply"),
    }
    assert!(matches!(x.e.hexists(0, KA, &[f]), Ok(b) if b == same), "HEXISTS");
    assert!(matches!(x.e.hlen(0, KA), Ok(1)), "HLEN");
    if which {
        let r = x.e.hset(0, KA.to_vec(), vec![(vec![f], vec![v])]);
        assert!(matches!(r, Ok(n) if n == if same { 0 } else { 1 }), "HSET returns the number of NEW fields");
        if same {
            assert!(hash_is(&x.e, &[f], &[v], 1), "HSET overwrites an existing field");
        } else {
            assert!(hash_is(&x.e, &[x.c[0], f], &[x.c[1], v], 2), "HSET adds the field");
        }
        x.post(true);
    } else {
        let r = x.e.hdel(0, KA.to_vec(), &[vec![f]]);
        assert!(matches!(r, Ok(n) if n == if same { 1 } else { 0 }), "HDEL count");
        if same {
            assert!(x.absent_now(), "a hash that becomes empty ceases to exist as a key");
            x.post(true);
        } else {
            assert!(x.unchanged(), "HDEL of a missing field changes nothing");
        }
    }
    kani::cover!(!same, "another field");
    std::mem::forget(g);
    x.done();
}
eng_harness_vec!(c03_hash_hset, 6, { op_hash_basic(true); });
eng_harness_vec!(c03_hash_hdel, 6, { op_hash_basic(false); });

/// list / set / hash write commands against a key of another type: WRONGTYPE, nothing changes
fn op_wrongtype(which: u8) {
    let x = env(Pre::Str2);
    let v: u8 = kani::any();
    let refused = match which {
        0 => matches!(&x.e.lpush(0, KA.to_vec(), vec![vec![v]]), Err(er) if is_wrongtype(er)),
        1 => matches!(&x.e.sadd(0, KA.to_vec(), vec![vec![v]]), Err(er) if is_wrongtype(er)),
        2 => matches!(&x.e.hset(0, KA.to_vec(), vec![(vec![v], vec![v])]), Err(er) if is_wrongtype(er)),
        3 => matches!(&x.e.lpop(0, KA), Err(er) if is_wrongtype(er)),
        4 => matches!(&x.e.lrange(0, KA, 0, -1), Err(er) if is_wrongtype(er)),
        _ => matches!(&x.e.hdel(0, KA.to_vec(), &[vec![v]]), Err(er) if is_wrongtype(er)),
    };
    kani::cover!(true, "returned");
    assert!(refused, "a list/set/hash command on a string key must be refused with WRONGTYPE");
    assert!(x.unchanged(), "a refused command changes nothing");
    x.post(false);
    x.done();
}
eng_harness!(c03_wrongtype_lpush, 6, { op_wrongtype(0); });
eng_harness!(c03_wrongtype_sadd, 6, { op_wrongtype(1); });
eng_harness!(c03_wrongtype_hset, 6, { op_wrongtype(2); });
eng_harness!(c03_wrongtype_lpop, 6, { op_wrongtype(3); });
eng_harness!(c03_wrongtype_lrange, 6, { op_wrongtype(4); });
eng_harness!(c03_wrongtype_hdel, 6, { op_wrongtype(5); });

// ---------------------------------------------------------------- C19: SCAN iteration guarantees
// group eng2s (2 shards): keys 'a' (shard 0), 'b' (shard 1), 'c' (shard 0)
const KC: &[u8] = b"c";
/// full iteration from cursor 0 with COUNT = count; `modify` is applied after the first call.
/// Returns a bitmask of the keys seen (bit0 'a', bit1 'b', bit2 'c', bit3 anything else) and the number of calls.
fn scan_iteration(e: &StorageEngine, count: usize, modify: u8) -> (u8, usize) {
    let mut seen = 0u8;
    let mut cursor = 0u64;
    let mut calls = 0usize;
    loop {
        let r = std::mem::ManuallyDrop::new(e.scan(0, cursor, None, None, count));
        calls += 1;
        match &*r {
            Ok((next, keys)) => {
                let mut i = 0;
                while i < keys.len() {
                    let k = &keys[i];
                    if k.len() == 1 && k[0] == b'a' {
                        seen |= 1;
                    } else if k.len() == 1 && k[0] == b'b' {
                        seen |= 2;
                    } else if k.len() == 1 && k[0] == b'c' {
                        seen |= 4;
                    } else {
                        seen |= 8;
                    }
                    i += 1;
                }
                cursor = *next;
            }
            Err(_) => {
                assert!(false, "SCAN failed");
                return (seen, calls);
            }
        }
        if calls == 1 {
            match modify {
                1 => {
                    // delete a key OTHER than the stable ones, smaller than them
                    let d = e.delete(0, KA);
                    assert!(matches!(d, Ok(true)));
                }
                2 => {
                    // add a key other than the stable ones
                    put_raw(e, 0, b"d", Value::String(vec![1]), None);
                }
                _ => {}
            }
        }
        if cursor == 0 || calls >= 5 {
            break;
        }
    }
    (seen, calls)
}
fn scan_env() -> StorageEngine {
    let e = mk_engine1();
    let v: [u8; 3] = kani::any();
    put_raw(&e, 0, KA, Value::String(vec![v[0]]), None);
    put_raw(&e, 0, KB, Value::String(vec![v[1]]), None);
    put_raw(&e, 0, KC, Value::String(vec![v[2]]), None);
    e
}
fn scan_check(count: usize, modify: u8) {
    let e = scan_env();
    let (seen, calls) = scan_iteration(&e, count, modify);
    kani::cover!(calls >= 2, "iteration took several calls");
    assert!(calls <= 4, "a full iteration terminates when the key space stops growing");
    assert!(seen & 8 == 0 || modify == 2, "SCAN returned a key that never existed");
    // 'b' and 'c' exist from the first to the last call in every variant
    assert!(seen & 2 != 0 && seen & 4 != 0, "a key that existed throughout the iteration was not returned");
    if modify == 0 {
        assert!(seen & 1 != 0, "a key that existed throughout the iteration was not returned");
    }
    std::mem::forget(e);
}
eng_harness_vec!(c19_scan_count1_stable, 8, { scan_check(1, 0); });
eng_harness_vec!(c19_scan_count2_stable, 8, { scan_check(2, 0); });
eng_harness_vec!(c19_scan_count1_add, 8, { scan_check(1, 2); });
eng_harness_vec!(c19_scan_count1_delete_kf, 8, { scan_check(1, 1); });

// ---------------------------------------------------------------- strengthening after seeded changes
/// RENAME k k: an existing key keeps its value; a missing key is 'no such key' (Redis checks
/// existence before anything else).
fn op_rename_same_name(present: bool) {
    let e = mk_engine1();
    let c: [u8; 2] = kani::any();
    if present {
        put_raw(&e, 0, KA, Value::String(vec![c[0], c[1]]), Some(mk_instant(T0_S + 7, 1)));
    }
    let r = e.rename(0, KA, KA.to_vec());
    kani::cover!(true, "rename returned");
    if present {
        assert!(r.is_ok(), "RENAME k k on an existing key succeeds");
        assert!(matches!(peek_str(&e, 0, KA), Obs::Str(b) if b.len() == 2 && b[0] == c[0] && b[1] == c[1]), "RENAME k k keeps the value");
        assert!(matches!(peek_deadline(&e, 0, KA), Some(Some(t)) if t == mk_instant(T0_S + 7, 1)), "RENAME k k keeps the TTL");
    } else {
        assert!(matches!(&r, Err(FerrousError::Command(CommandError::NoSuchKey))), "RENAME k k on a missing key is 'no such key'");
        assert!(matches!(peek_str(&e, 0, KA), Obs::Absent));
    }
    std::mem::forget(r);
    std::mem::forget(e);
}
eng_harness!(c01_rename_same_name_missing, 5, { op_rename_same_name(false); });
eng_harness!(c01_rename_same_name_present, 5, { op_rename_same_name(true); });

/// SET EX / SETNX EX with any (u32 s, ns) duration: the value carries deadline = now + ttl and
/// the index agrees (a zero TTL is still a TTL).
eng_harness!(c02_setex_deadline, 5, {
    let e = mk_engine1();
    let secs: u32 = kani::any();
    let nanos: u32 = kani::any();
    kani::assume(nanos < 1_000_000_000);
    let v: u8 = kani::any();
    let nx: bool = kani::any();
    let d = Duration::new(secs as u64, nanos);
    if nx {
        assert!(matches!(e.set_string_nx_ex(0, KA.to_vec(), vec![v], d), Ok(true)));
    } else {
        assert!(e.set_string_ex(0, KA.to_vec(), vec![v], d).is_ok());
    }
    kani::cover!(secs == 0 && nanos == 0, "zero TTL");
    let want = mk_instant(T0_S + secs as i64, nanos);
    assert!(matches!(peek_deadline(&e, 0, KA), Some(Some(t)) if t == want), "SET EX stores deadline = now + ttl (also for a zero ttl)");
    assert!(matches!(peek_index(&e, 0, KA), Some(t) if t == want), "SET EX indexes the same deadline");
    assert!(matches!(peek_str(&e, 0, KA), Obs::Str(b) if b.len() == 1 && b[0] == v));
    std::mem::forget(e);
});

/// SDIFF a m b with a = {x, y}, m missing, b = {y'}: missing keys are empty sets, every later key
/// is still subtracted.  (keys 'a' shard 12, 'q' shard 12 missing, 'b' shard 5)
eng_harness_vec!(c03_sdiff_missing_middle, 6, {
    let e = mk_engine1();
    let c: [u8; 3] = kani::any();
    kani::assume(c[0] != c[1]);
    let mut h = HashSet::new();
    h.insert(vec![c[0]]);
    h.insert(vec![c[1]]);
    put_raw(&e, 0, KA, Value::Set(h), None);
    let mut h2 = HashSet::new();
    h2.insert(vec![c[2]]);
    put_raw(&e, 0, KB, Value::Set(h2), None);
    let keys: [&[u8]; 3] = [KA, KQ, KB];
    let r = std::mem::ManuallyDrop::new(e.sdiff(0, &keys));
    kani::cover!(c[2] == c[1], "second set removes a member");
    match &*r {
        Ok(v) => {
            let want0 = c[0] != c[2];
            let want1 = c[1] != c[2];
            let n = (want0 as usize) + (want1 as usize);
            assert!(v.len() == n, "SDIFF: number of members (a missing key in the middle is an empty set)");
            let mut i = 0;
            while i < v.len() {
                assert!(v[i].len() == 1 && ((want0 && v[i][0] == c[0]) || (want1 && v[i][0] == c[1])), "SDIFF member");
                i += 1;
            }
        }
        Err(_) => assert!(false, "SDIFF failed"),
    }
    std::mem::forget(e);
});

/// LREM with small concrete negative/positive counts on [x0, x1, x2] (symbolic, possibly equal)
fn op_lrem_concrete(count: isize) {
    let (e, c, _base) = list_env::<3>();
    let x: u8 = kani::any();
    let r = e.lrem(0, KA.to_vec(), count, vec![x]);
    let mut keep = [true; 3];
    let mut removed = 0usize;
    let limit = count.unsigned_abs();
    if count > 0 {
        let mut i = 0;
        while i < 3 {
            if c[i] == x && removed < limit {
                keep[i] = false;
                removed += 1;
            }
            i += 1;
        }
    } else {
        let mut i = 3;
        while i > 0 {
            i -= 1;
            if c[i] == x && removed < limit {
                keep[i] = false;
                removed += 1;
            }
        }
    }
    let mut want = [0u8; 3];
    let mut n = 0;
    let mut i = 0;
    while i < 3 {
        if keep[i] {
            want[n] = c[i];
            n += 1;
        }
        i += 1;
    }
    kani::cover!(removed == 1 && n == 2, "one of several occurrences removed");
    assert!(matches!(r, Ok(k) if k == removed), "LREM returns the number of removed elements");
    assert!(list_is(&e, &want, n), "LREM removes the first (count>0) / last (count<0) |count| occurrences and keeps the order of the rest");
    std::mem::forget(e);
}
eng_harness_vec!(c03_lrem_minus1, 6, { op_lrem_concrete(-1); });
eng_harness_vec!(c03_lrem_plus1, 6, { op_lrem_concrete(1); });

// cross-shard RENAME (group eng2s: 'a' in shard 0, 'b' in shard 1), both directions, so that both
// lock-acquisition orders (decided by comparing shard addresses) are exercised
// NOT REGISTERED (timeout > 900 s):
eng_harness_vec!(c01_rename_cross_ab, 5, { op_rename(Pre::Str2, KB, false); });
eng_harness_vec!(c01_rename_cross_ba, 5, {
    let e = mk_engine1();
    let c: [u8; 2] = kani::any();
    let dl = mk_instant(T0_S + 100, 7);
    put_raw(&e, 0, KB, Value::String(vec![c[0], c[1]]), Some(dl));
    let base_a = e.register_watch(0, KA).ok().unwrap();
    let base_b = e.register_watch(0, KB).ok().unwrap();
    let r = e.rename(0, KB, KA.to_vec());
    kani::cover!(true, "rename returned");
    assert!(r.is_ok());
    assert!(matches!(peek_str(&e, 0, KB), Obs::Absent), "RENAME removes the source");
    assert!(matches!(peek_str(&e, 0, KA), Obs::Str(b) if b.len() == 2 && b[0] == c[0] && b[1] == c[1]), "RENAME moves the value");
    assert!(matches!(peek_deadline(&e, 0, KA), Some(Some(t)) if t == dl), "C02: the TTL travels with the value");
    assert!(e.was_modified_since(0, KA, base_a).ok().unwrap(), "C08: RENAME must report the destination key as modified");
    assert!(e.was_modified_since(0, KB, base_b).ok().unwrap(), "C08: RENAME must report the source key as modified");
    assert!(peek_index(&e, 0, KB).is_none() && matches!(peek_index(&e, 0, KA), Some(t) if t == dl), "C02: expiry index follows the value");
    std::mem::forget(r);
    std::mem::forget(e);
});

/// SINTER / SUNION of a = {x, y} and b = {z} (symbolic; z may equal x or y), plus a missing key.
fn op_set_algebra(which: u8) {
    let e = mk_engine1();
    let c: [u8; 3] = kani::any();
    kani::assume(c[0] != c[1]);
    let mut h = HashSet::new();
    h.insert(vec![c[0]]);
    h.insert(vec![c[1]]);
    put_raw(&e, 0, KA, Value::Set(h), None);
    let mut h2 = HashSet::new();
    h2.insert(vec![c[2]]);
    put_raw(&e, 0, KB, Value::Set(h2), None);
    let in_a = c[2] == c[0] || c[2] == c[1];
    kani::cover!(in_a, "second set shares a member with the first");
    match which {
        0 => {
            // SINTER a b
            let keys: [&[u8]; 2] = [KA, KB];
            let r = std::mem::ManuallyDrop::new(e.sinter(0, &keys));
            match &*r {
                Ok(v) => {
                    assert!(v.len() == in_a as usize, "SINTER: number of common members");
                    if in_a {
                        assert!(v[0].len() == 1 && v[0][0] == c[2], "SINTER member");
                    }
                }
                Err(_) => assert!(false, "SINTER failed"),
            }
        }
        1 => {
            // SINTER a missing b  => empty
            let keys: [&[u8]; 3] = [KA, KQ, KB];
            let r = std::mem::ManuallyDrop::new(e.sinter(0, &keys));
            assert!(matches!(&*r, Ok(v) if v.is_empty()), "SINTER with a missing key is empty");
        }
        _ => {
            // SUNION a missing b
            let keys: [&[u8]; 3] = [KA, KQ, KB];
            let r = std::mem::ManuallyDrop::new(e.sunion(0, &keys));
            match &*r {
                Ok(v) => {
                    assert!(v.len() == if in_a { 2 } else { 3 }, "SUNION: members are unique, a missing key is an empty set");
                    let mut seen = [false; 3];
                    let mut i = 0;
                    while i < v.len() {
                        assert!(v[i].len() == 1, "SUNION member");
                        if v[i][0] == c[0] { seen[0] = true; }
                        if v[i][0] == c[1] { seen[1] = true; }
                        if v[i][0] == c[2] { seen[2] = true; }
                        i += 1;
                    }
                    assert!(seen[0] && seen[1] && seen[2], "SUNION contains every member of every set");
                }
                Err(_) => assert!(false, "SUNION failed"),
            }
        }
    }
    std::mem::forget(e);
}
eng_harness_vec!(c03_sinter_two, 6, { op_set_algebra(0); });
eng_harness_vec!(c03_sinter_missing, 6, { op_set_algebra(1); });
eng_harness_vec!(c03_sunion_missing, 6, { op_set_algebra(2); });

// ---------------------------------------------------------------- C19 / C01: the engine's glob (MATCH, KEYS)
// pattern_matches(&str, &str) of engine.rs against the Redis stringmatchlen recurrence (evaluated
// bottom-up over a table), for ASCII patterns without '[' and '\' (classes and escapes are
// compared for the pub/sub matcher under C14; here the star/question-mark/literal core).
fn ref_glob_core<const P: usize, const T: usize>(p: &[u8; P], t: &[u8; T]) -> bool {
    let mut m = [[false; 5]; 6];
    let mut i = P + 1;
    while i > 0 {
        i -= 1;
        let mut j = T + 1;
        while j > 0 {
            j -= 1;
            m[i][j] = if i == P {
                j == T
            } else if p[i] == b'*' {
                m[i + 1][j] || (j < T && m[i][j + 1])
            } else if j == T {
                false
            } else if p[i] == b'?' {
                m[i + 1][j + 1]
            } else {
                p[i] == t[j] && m[i + 1][j + 1]
            };
        }
    }
    m[0][0]
}
fn engine_glob_case<const P: usize, const T: usize>() {
    let p: [u8; P] = kani::any();
    let t: [u8; T] = kani::any();
    let mut i = 0;
    while i < P {
        kani::assume(p[i] < 128 && p[i] != b'[' && p[i] != b'\\');
        i += 1;
    }
    let mut j = 0;
    while j < T {
        kani::assume(t[j] < 128);
        j += 1;
    }
    let ps = unsafe { std::str::from_utf8_unchecked(&p) };
    let ts = unsafe { std::str::from_utf8_unchecked(&t) };
    let got = pattern_matches(ps, ts);
    let want = ref_glob_core(&p, &t);
    kani::cover!(got && P >= 2 && p[0] == b'*', "match through a leading star");
    assert!(got == want, "engine pattern_matches differs from the reference glob matcher (Redis stringmatchlen)");
}
eng_harness_vec!(c19_glob_p3_t3, 14, { engine_glob_case::<3, 3>(); });
eng_harness_vec!(c19_glob_p3_t4, 18, { engine_glob_case::<3, 4>(); });
eng_harness_vec!(c19_glob_p2_t3, 12, { engine_glob_case::<2, 3>(); });
