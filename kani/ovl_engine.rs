// Overlay for src/storage/engine.rs (child module => sees private items).
// Builders for engine states + harnesses for C01/C02/C03/C06/C08/C18/C19 at the engine level.
#![allow(dead_code, unused)]
use super::*;
use crate::storage::value::{StringEncoding, ValueMetadata};
use crate::verif_common::*;
use std::panic::catch_unwind;

pub fn mk_shard() -> Arc<RwLock<DatabaseShard>> {
    Arc::new(RwLock::new(DatabaseShard {
        data: HashMap::new(),
        expiring_keys: HashMap::new(),
        watch_tracker: ShardWatchTracker::new(),
    }))
}

pub fn mk_db() -> Database {
    let shards = if SHARDS_PER_DATABASE == 2 {
        vec![mk_shard(), mk_shard()]
    } else {
        vec![
            mk_shard(), mk_shard(), mk_shard(), mk_shard(), mk_shard(), mk_shard(), mk_shard(), mk_shard(),
            mk_shard(), mk_shard(), mk_shard(), mk_shard(), mk_shard(), mk_shard(), mk_shard(), mk_shard(),
        ]
    };
    assert!(shards.len() == SHARDS_PER_DATABASE);
    Database { shards }
}

/// A StorageEngine built directly: no sweeper thread, unlimited memory.
pub fn mk_engine1() -> StorageEngine {
    StorageEngine {
        databases: vec![mk_db()],
        memory_manager: Arc::new(MemoryManager::unlimited()),
        expiration_handle: None,
    }
}
pub fn mk_engine2() -> StorageEngine {
    StorageEngine {
        databases: vec![mk_db(), mk_db()],
        memory_manager: Arc::new(MemoryManager::unlimited()),
        expiration_handle: None,
    }
}

pub fn meta(expires_at: Option<Instant>) -> ValueMetadata {
    let t0 = mk_instant(T0_S, 0);
    ValueMetadata { expires_at, created_at: t0, last_accessed: t0, encoding: StringEncoding::Raw }
}

/// Put a value into the engine state directly (pre-state construction, no engine op involved).
pub fn put_raw(e: &StorageEngine, db: usize, key: &[u8], value: Value, expires_at: Option<Instant>) {
    let shard = e.get_shard(db, key).ok().unwrap();
    let mut g = shard.write().unwrap();
    g.data.insert(key.to_vec(), StoredValue { value, metadata: meta(expires_at) });
    if let Some(t) = expires_at {
        g.expiring_keys.insert(key.to_vec(), t);
    }
}

/// Observation of one key, bypassing all engine operations.
pub enum Obs {
    Absent,
    Str(Vec<u8>),
    Other(u8),
}
pub fn peek_str(e: &StorageEngine, db: usize, key: &[u8]) -> Obs {
    let shard = e.get_shard(db, key).ok().unwrap();
    let g = shard.read().unwrap();
    match g.data.get(key) {
        None => Obs::Absent,
        Some(sv) => match &sv.value {
            Value::String(b) => Obs::Str(b.clone()),
            Value::List(_) => Obs::Other(1),
            Value::Set(_) => Obs::Other(2),
            Value::Hash(_) => Obs::Other(3),
            Value::SortedSet(_) => Obs::Other(4),
            Value::Stream(_) => Obs::Other(5),
        },
    }
}
pub fn peek_deadline(e: &StorageEngine, db: usize, key: &[u8]) -> Option<Option<Instant>> {
    let shard = e.get_shard(db, key).ok().unwrap();
    let g = shard.read().unwrap();
    g.data.get(key).map(|sv| sv.metadata.expires_at)
}
pub fn peek_index(e: &StorageEngine, db: usize, key: &[u8]) -> Option<Instant> {
    let shard = e.get_shard(db, key).ok().unwrap();
    let g = shard.read().unwrap();
    g.expiring_keys.get(key).cloned()
}

// ---------------------------------------------------------------- reference models

/// Redis GETRANGE (t_string.c getrangeCommand, 7.x).  Returns (lo, hi_inclusive) or None for "".
/// `alt_empty` is set when later Redis versions (8.x) answer "" instead (end still negative after
/// adding the length): both answers are accepted there.
fn model_getrange(len: usize, start: isize, end: isize) -> (Option<(usize, usize)>, bool) {
    let l = len as i128;
    let mut s = start as i128;
    let mut e = end as i128;
    if s < 0 && e < 0 && s > e {
        return (None, false);
    }
    if s < 0 {
        s += l;
    }
    if e < 0 {
        e += l;
    }
    let alt_empty = e < 0;
    if s < 0 {
        s = 0;
    }
    if e < 0 {
        e = 0;
    }
    if e >= l {
        e = l - 1;
    }
    if s > e || l == 0 {
        (None, alt_empty)
    } else {
        (Some((s as usize, e as usize)), alt_empty)
    }
}

// ---------------------------------------------------------------- C01 / C06 harnesses

/// GETRANGE on a present string of exactly N symbolic bytes, full-width symbolic start/end.
fn getrange_n<const N: usize>() {
    let e = mk_engine1();
    let v: [u8; N] = kani::any();
    put_raw(&e, 0, b"k", Value::String(v.to_vec()), None);
    let start: isize = kani::any();
    let end: isize = kani::any();
    let r = e.getrange(0, b"k", start, end);
    kani::cover!(true, "getrange returned");
    let got = match r {
        Ok(b) => b,
        Err(_) => {
            assert!(false, "GETRANGE on a string must not fail");
            Vec::new()
        }
    };
    let (m, alt) = model_getrange(N, start, end);
    match m {
        None => assert!(got.is_empty(), "GETRANGE must be empty here"),
        Some((lo, hi)) => {
            if alt && got.is_empty() {
                // accepted (Redis 8 answer)
            } else {
                assert!(got.len() == hi - lo + 1, "GETRANGE reply length");
                let mut i = 0;
                while i < got.len() {
                    assert!(got[i] == v[lo + i], "GETRANGE reply bytes");
                    i += 1;
                }
            }
        }
    }
    // read-only: the value is untouched
    match peek_str(&e, 0, b"k") {
        Obs::Str(b) => assert!(bytes_eq(&b, &v), "GETRANGE must not change the value"),
        _ => assert!(false, "GETRANGE must not change the key"),
    }
    std::mem::forget(e);
}

#[kani::proof]
#[kani::unwind(5)]
#[kani::stub(std::time::Instant::now, crate::verif_common::now_fixed)]
#[kani::stub(catch_unwind, cu_stub)]
fn c01_getrange_len3() {
    getrange_n::<3>();
}

#[kani::proof]
#[kani::unwind(5)]
#[kani::stub(std::time::Instant::now, crate::verif_common::now_fixed)]
#[kani::stub(catch_unwind, cu_stub)]
fn c01_getrange_len0() {
    getrange_n::<0>();
}
