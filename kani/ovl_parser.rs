// Overlay for src/protocol/parser.rs: C20 (codec), C06 (parser totality, allocation bound),
// C05 (reply framing).
#![allow(dead_code, unused)]
use super::*;
use crate::protocol::serializer::serialize_to_vec;
use crate::verif_common::*;

// ---------------------------------------------------------------- totality per type byte
// contract of parse_frame on arbitrary bytes: a frame with 0 < consumed <= len, None, or Err.
fn contract_ok(r: &Result<Option<(RespFrame, usize)>>, n: usize) -> bool {
    match r {
        Ok(Some((_, c))) => *c > 0 && *c <= n,
        Ok(None) => true,
        Err(_) => true,
    }
}

fn total_leaf<const N: usize>(ty: u8) {
    let mut data: [u8; N] = kani::any();
    data[0] = ty;
    let n: usize = kani::any();
    kani::assume(n <= N);
    let r = parse_frame(&data[..n]);
    kani::cover!(matches!(r, Ok(Some(_))), "some frame parsed");
    kani::cover!(matches!(r, Ok(None)), "incomplete input");
    assert!(contract_ok(&r, n), "parse_frame contract: 0 < consumed <= len");
    std::mem::forget(r);
}

#[kani::proof]
#[kani::unwind(8)]
#[kani::stub(alloc::fmt::format, fmt_stub)]
fn c20_total_simple() {
    total_leaf::<6>(b'+');
}
#[kani::proof]
#[kani::unwind(8)]
#[kani::stub(alloc::fmt::format, fmt_stub)]
fn c20_total_error() {
    total_leaf::<6>(b'-');
}
#[kani::proof]
#[kani::unwind(8)]
#[kani::stub(alloc::fmt::format, fmt_stub)]
fn c20_total_integer() {
    total_leaf::<6>(b':');
}
#[kani::proof]
#[kani::unwind(8)]
#[kani::stub(alloc::fmt::format, fmt_stub)]
fn c20_total_bulk() {
    total_leaf::<7>(b'$');
}
#[kani::proof]
#[kani::unwind(8)]
#[kani::stub(alloc::fmt::format, fmt_stub)]
fn c20_total_null() {
    total_leaf::<4>(b'_');
}
#[kani::proof]
#[kani::unwind(8)]
#[kani::stub(alloc::fmt::format, fmt_stub)]
fn c20_total_bool() {
    total_leaf::<5>(b'#');
}
fn cut_arm(_d: &[u8]) -> Result<Option<(RespFrame, usize)>> {
    // arm not under test in this harness; reaching it is reported, not ignored
    assert!(false, "dispatched to a parser arm that this harness declares unreachable");
    Ok(None)
}

#[kani::proof]
#[kani::unwind(8)]
#[kani::stub(alloc::fmt::format, fmt_stub)]
#[kani::stub(parse_simple_string, cut_arm)]
#[kani::stub(parse_error, cut_arm)]
#[kani::stub(parse_integer, cut_arm)]
#[kani::stub(parse_bulk_string, cut_arm)]
#[kani::stub(parse_array, cut_arm)]
#[kani::stub(parse_null, cut_arm)]
#[kani::stub(parse_boolean, cut_arm)]
#[kani::stub(parse_double, cut_arm)]
#[kani::stub(parse_map, cut_arm)]
#[kani::stub(parse_set, cut_arm)]
fn c20_total_badtype() {
    // every byte that is not a RESP type byte is an error, never a panic
    let mut data: [u8; 3] = kani::any();
    let t = data[0];
    kani::assume(!matches!(t, b'+' | b'-' | b':' | b'$' | b'*' | b'_' | b'#' | b',' | b'%' | b'~'));
    let r = parse_frame(&data[..]);
    kani::cover!(true, "reached");
    assert!(r.is_err(), "unknown type byte is a protocol error");
    std::mem::forget(r);
}

// ---------------------------------------------------------------- round trip
// parse(serialize(f)) == (f, len).  Arms of the dispatch that the frame under test must not
// reach are replaced by `cut_arm`, which FAILS the harness if reached (so a wrong type byte
// written by the serializer is reported, not masked).

fn no_crlf(b: &[u8]) -> bool {
    let mut i = 0;
    while i < b.len() {
        if b[i] == b'\r' || b[i] == b'\n' {
            return false;
        }
        i += 1;
    }
    true
}

/// non-recursive equality for leaf frames (the derived PartialEq recurses through Vec<RespFrame>,
/// which CBMC would unroll to the unwind bound on a symbolic discriminant)
fn leaf_eq(a: &RespFrame, b: &RespFrame) -> bool {
    match (a, b) {
        (RespFrame::SimpleString(x), RespFrame::SimpleString(y)) => bytes_eq(x, y),
        (RespFrame::Error(x), RespFrame::Error(y)) => bytes_eq(x, y),
        (RespFrame::Integer(x), RespFrame::Integer(y)) => x == y,
        (RespFrame::BulkString(Some(x)), RespFrame::BulkString(Some(y))) => bytes_eq(x, y),
        (RespFrame::BulkString(None), RespFrame::BulkString(None)) => true,
        (RespFrame::Array(None), RespFrame::Array(None)) => true,
        (RespFrame::Null, RespFrame::Null) => true,
        (RespFrame::Boolean(x), RespFrame::Boolean(y)) => x == y,
        _ => false,
    }
}

fn roundtrip(f: RespFrame) {
    use std::mem::ManuallyDrop;
    let f = ManuallyDrop::new(f);
    let bytes = ManuallyDrop::new(serialize_to_vec(&f));
    let bytes: &Vec<u8> = match &*bytes {
        Ok(b) => b,
        Err(_) => {
            assert!(false, "serialisation of a valid frame failed");
            return;
        }
    };
    let r = ManuallyDrop::new(parse_frame(bytes));
    kani::cover!(true, "round trip reached");
    match &*r {
        Ok(Some((g, c))) => {
            assert!(*c == bytes.len(), "parse consumes exactly the serialised bytes");
            assert!(leaf_eq(g, &f), "parse(serialize(f)) == f");
        }
        _ => assert!(false, "serialised frame does not parse back to a frame"),
    }
}

#[kani::proof]
#[kani::unwind(8)]
#[kani::stub(alloc::fmt::format, fmt_stub)]
#[kani::stub(parse_integer, cut_arm)]
#[kani::stub(parse_bulk_string, cut_arm)]
#[kani::stub(parse_array, cut_arm)]
#[kani::stub(parse_double, cut_arm)]
#[kani::stub(parse_map, cut_arm)]
#[kani::stub(parse_set, cut_arm)]
fn c20_rt_line_types() {
    // payload lengths 0, 1 and 3 concretely (a symbolic length makes the payload copy a
    // symbolic-size allocation); bytes symbolic minus CR/LF
    let p: [u8; 3] = kani::any();
    kani::assume(no_crlf(&p));
    let err: bool = kani::any();
    if err {
        roundtrip(RespFrame::Error(Arc::new(Vec::new())));
        roundtrip(RespFrame::Error(Arc::new(vec![p[0]])));
        roundtrip(RespFrame::Error(Arc::new(vec![p[0], p[1], p[2]])));
    } else {
        roundtrip(RespFrame::SimpleString(Arc::new(Vec::new())));
        roundtrip(RespFrame::SimpleString(Arc::new(vec![p[0]])));
        roundtrip(RespFrame::SimpleString(Arc::new(vec![p[0], p[1], p[2]])));
    }
}

#[kani::proof]
#[kani::unwind(8)]
#[kani::stub(alloc::fmt::format, fmt_stub)]
#[kani::stub(parse_integer, cut_arm)]
#[kani::stub(parse_bulk_string, cut_arm)]
#[kani::stub(parse_array, cut_arm)]
#[kani::stub(parse_double, cut_arm)]
#[kani::stub(parse_map, cut_arm)]
#[kani::stub(parse_set, cut_arm)]
#[kani::stub(parse_simple_string, cut_arm)]
#[kani::stub(parse_error, cut_arm)]
fn c20_rt_null_bool() {
    let k: u8 = kani::any();
    if k == 0 {
        roundtrip(RespFrame::Null);
    } else {
        roundtrip(RespFrame::Boolean(k == 1));
    }
}

#[kani::proof]
#[kani::unwind(8)]
#[kani::stub(alloc::fmt::format, fmt_stub)]
#[kani::stub(parse_integer, cut_arm)]
#[kani::stub(parse_double, cut_arm)]
#[kani::stub(parse_map, cut_arm)]
#[kani::stub(parse_set, cut_arm)]
#[kani::stub(parse_simple_string, cut_arm)]
#[kani::stub(parse_error, cut_arm)]
fn c20_rt_bulk() {
    // payload bytes symbolic (any byte incl. CR/LF), length concrete per call: the decimal
    // formatting of a symbolic length runs CBMC out of memory (std fmt machinery)
    let p: [u8; 3] = kani::any();
    roundtrip(RespFrame::BulkString(Some(Arc::new(Vec::new()))));
    roundtrip(RespFrame::BulkString(Some(Arc::new(vec![p[0]]))));
    roundtrip(RespFrame::BulkString(Some(Arc::new(vec![p[0], p[1], p[2]]))));
    roundtrip(RespFrame::BulkString(None));
    roundtrip(RespFrame::Array(None));
}

#[kani::proof]
#[kani::unwind(8)]
#[kani::stub(alloc::fmt::format, fmt_stub)]
#[kani::stub(parse_bulk_string, cut_arm)]
#[kani::stub(parse_array, cut_arm)]
#[kani::stub(parse_double, cut_arm)]
#[kani::stub(parse_map, cut_arm)]
#[kani::stub(parse_set, cut_arm)]
#[kani::stub(parse_simple_string, cut_arm)]
#[kani::stub(parse_error, cut_arm)]
fn c20_rt_integer_lits() {
    // literal table (symbolic i64 -> decimal -> i64 is std's Display/FromStr and does not fit)
    roundtrip(RespFrame::Integer(0));
    roundtrip(RespFrame::Integer(-1));
    roundtrip(RespFrame::Integer(10));
    roundtrip(RespFrame::Integer(-128));
}

// ---------------------------------------------------------------- chunk independence
// RespParser::parse looks only at R = buffer[position..].  Chunk independence of the incremental
// parser follows by induction over chunks from the prefix lemma decided here: for every R and
// every proper prefix R' of R,
//   (1) parse(R') = frame f  =>  parse(R) = the same frame f, and the remaining bytes agree
//       after the whitespace skipping that the next parse() performs anyway;
//   (2) parse(R') = Err      =>  parse(R) = Err;
//   (3) parse(R') = None     =>  only leading whitespace of R' was consumed.
// Aggregate and double arms are cut with assume(false): inputs in which a frame starts with
// * % ~ , are outside these harnesses.
fn cut_assume(_d: &[u8]) -> Result<Option<(RespFrame, usize)>> {
    kani::assume(false);
    Ok(None)
}

fn is_ws(b: u8) -> bool {
    b == b' ' || b == b'\r' || b == b'\n' || b == b'\t'
}
/// index of the first non-whitespace byte at or after `from`
fn skip_ws(d: &[u8], from: usize) -> usize {
    let mut i = from;
    while i < d.len() && is_ws(d[i]) {
        i += 1;
    }
    i
}

fn prefix_lemma<const N: usize>(data: [u8; N], k: usize) {
    prefix_lemma_opt::<N>(data, k, true)
}
/// `frame_in_prefix`: whether a proper prefix of the harness's inputs can hold a whole frame at all
/// (the vacuity witness "prefix already holds a frame" is only demanded where it can)
fn prefix_lemma_opt<const N: usize>(data: [u8; N], k: usize, frame_in_prefix: bool) {
    use std::mem::ManuallyDrop;
    let mut p_pre = ManuallyDrop::new(RespParser { buffer: data[..k].to_vec(), position: 0 });
    let mut p_all = ManuallyDrop::new(RespParser { buffer: data.to_vec(), position: 0 });
    let r_pre = ManuallyDrop::new(p_pre.parse());
    let r_all = ManuallyDrop::new(p_all.parse());
    kani::cover!(!frame_in_prefix || matches!(&*r_pre, Ok(Some(_))), "prefix already holds a frame");
    kani::cover!(frame_in_prefix || matches!(&*r_all, Ok(Some(_))), "the whole input holds a frame");
    kani::cover!(matches!(&*r_pre, Ok(None)), "prefix incomplete");
    match (&*r_pre, &*r_all) {
        (Ok(Some(f)), Ok(Some(g))) => {
            assert!(leaf_eq(f, g) || matches!((f, g), (RespFrame::Array(Some(_)), RespFrame::Array(Some(_)))),
                    "(1) same frame from prefix and from whole input");
            // remaining bytes: prefix parser's rest ++ unseen tail == whole parser's rest, modulo
            // leading whitespace (skipped by the next parse call in either case)
            let rest_pre_start = p_pre.position;                   // within data[..k] (no compaction offset:
            let rest_all_start = p_all.position;                   //  positions are relative to the buffers)
            let a = skip_ws_after(&p_pre, &data, k);
            let b = skip_ws_abs(&p_all, &data);
            assert!(a == b, "(1) remaining input agrees after whitespace skipping");
        }
        (Ok(Some(_)), _) => assert!(false, "(1) frame from the prefix but not from the whole input"),
        (Err(_), Err(_)) => {}
        (Err(_), _) => assert!(false, "(2) error on the prefix but not on the whole input"),
        (Ok(None), _) => {
            // (3) only whitespace consumed
            let consumed = consumed_of(&p_pre, k);
            assert!(consumed <= k);
            let mut i = 0;
            while i < consumed {
                assert!(is_ws(data[i]), "(3) need-more consumed a non-whitespace byte");
                i += 1;
            }
        }
    }
}
/// bytes of the original input consumed by a parser that was created with `total` bytes
/// (the buffer may have been compacted: consumed = total - (buffer.len() - position))
fn consumed_of(p: &RespParser, total: usize) -> usize {
    total - (p.buffer.len() - p.position)
}
/// absolute index in `data` of the first non-whitespace byte that the prefix parser (fed k bytes)
/// would see next once the tail data[k..] is appended
fn skip_ws_after(p: &RespParser, data: &[u8], k: usize) -> usize {
    skip_ws(data, consumed_of(p, k))
}
fn skip_ws_abs(p: &RespParser, data: &[u8]) -> usize {
    skip_ws(data, consumed_of(p, data.len()))
}

macro_rules! prefix_harness {
    ($name:ident, $n:expr, $first:expr) => {
        #[kani::proof]
        #[kani::unwind(8)]
        #[kani::stub(alloc::fmt::format, fmt_stub)]
        #[kani::stub(parse_array, cut_assume)]
        #[kani::stub(parse_double, cut_assume)]
        #[kani::stub(parse_map, cut_assume)]
        #[kani::stub(parse_set, cut_assume)]
        fn $name() {
            let mut data: [u8; $n] = kani::any();
            data[0] = $first;
            // every split point, concretely (a symbolic prefix length makes the buffer copy a
            // symbolic-size allocation, which CBMC cannot reduce within memory here)
            let mut k = 1;
            while k < $n {
                prefix_lemma::<$n>(data, k);
                k += 1;
            }
        }
    };
}
prefix_harness!(c20_prefix_simple, 6, b'+');
prefix_harness!(c20_prefix_error, 6, b'-');
prefix_harness!(c20_prefix_null, 6, b'_');
prefix_harness!(c20_prefix_bool, 6, b'#');
prefix_harness!(c20_prefix_inline_p, 6, b'P');
prefix_harness!(c20_prefix_integer, 6, b':');
prefix_harness!(c20_prefix_bulk, 7, b'$');
/// Bulk strings with a CONCRETE declared length (the symbolic length digits of c20_prefix_bulk are
/// what makes it take 40 minutes): "$0" + 4 arbitrary bytes and "$1" + 5 arbitrary bytes, every
/// split point - in particular the split between the CR and the LF of the trailer.
macro_rules! prefix_harness2 {
    ($name:ident, $n:expr, $first:expr, $second:expr) => {
        #[kani::proof]
        #[kani::unwind(8)]
        #[kani::stub(alloc::fmt::format, fmt_stub)]
        #[kani::stub(parse_array, cut_assume)]
        #[kani::stub(parse_double, cut_assume)]
        #[kani::stub(parse_map, cut_assume)]
        #[kani::stub(parse_set, cut_assume)]
        fn $name() {
            let mut data: [u8; $n] = kani::any();
            data[0] = $first;
            data[1] = $second;
            let mut k = 1;
            while k < $n {
                // "$0\r\n\r\n" needs all 6 bytes: no proper prefix holds a frame
                prefix_lemma_opt::<$n>(data, k, false);
                k += 1;
            }
        }
    };
}
prefix_harness2!(c20_prefix_blk0_all, 6, b'$', b'0');
prefix_harness2!(c20_prefix_blk_len1, 7, b'$', b'1');
/// quick-tier instance: only the two split points around the trailer of "$0\r\n" + 2 bytes
/// (before the trailer, and between its CR and LF); all five split points are c20_prefix_blk0_all
#[kani::proof]
#[kani::unwind(8)]
#[kani::stub(alloc::fmt::format, fmt_stub)]
#[kani::stub(parse_array, cut_assume)]
#[kani::stub(parse_double, cut_assume)]
#[kani::stub(parse_map, cut_assume)]
#[kani::stub(parse_set, cut_assume)]
fn c20_prefix_blk0_trailer() {
    let mut data: [u8; 6] = kani::any();
    data[0] = b'$';
    data[1] = b'0';
    prefix_lemma_opt::<6>(data, 4, false);
    prefix_lemma_opt::<6>(data, 5, false);
}

// ---------------------------------------------------------------- allocation obligation
// "never reserves memory according to a declared length it has not received": inside the
// aggregate parsers Vec::with_capacity is replaced by a wrapper asserting n <= bytes received.
static mut ALLOC_LIMIT: usize = 0;
static mut ALLOC_SEEN: bool = false;
fn with_capacity_checked<T>(n: usize) -> Vec<T> {
    unsafe {
        ALLOC_SEEN = true;
        assert!(n <= ALLOC_LIMIT, "reservation sized by a declared length that was not received");
    }
    Vec::new()
}

/// the recursive call sees no element bytes in these harnesses (real behaviour on empty input)
fn parse_frame_on_empty(d: &[u8]) -> Result<Option<(RespFrame, usize)>> {
    assert!(d.is_empty(), "harness shape: no element bytes follow the header");
    Ok(None)
}

fn alloc_obligation(ty: u8) {
    // header: type byte, two symbolic bytes (digits or anything), CRLF; no element bytes follow
    let d: [u8; 2] = kani::any();
    let data = [ty, d[0], d[1], b'\r', b'\n'];
    unsafe {
        ALLOC_LIMIT = data.len();
    }
    let r = std::mem::ManuallyDrop::new(match ty {
        b'*' => parse_array(&data),
        b'%' => parse_map(&data),
        _ => parse_set(&data),
    });
    kani::cover!(unsafe { ALLOC_SEEN }, "reservation reached");
    assert!(!matches!(&*r, Ok(Some((_, c))) if *c == 0 || *c > data.len()), "contract");
}

macro_rules! alloc_harness {
    ($name:ident, $ty:expr) => {
        #[kani::proof]
        #[kani::unwind(7)]
        #[kani::stub(alloc::fmt::format, fmt_stub)]
        #[kani::stub(std::vec::Vec::with_capacity, with_capacity_checked)]
        #[kani::stub(parse_frame, parse_frame_on_empty)]
        fn $name() {
            alloc_obligation($ty);
        }
    };
}
alloc_harness!(c20_alloc_array, b'*');
alloc_harness!(c20_alloc_map, b'%');
alloc_harness!(c20_alloc_set, b'~');

// ---------------------------------------------------------------- C05: reply framing
fn line_framing(is_err: bool) {
    use std::mem::ManuallyDrop;
    let p: [u8; 3] = kani::any();
    let f = ManuallyDrop::new(if is_err {
        RespFrame::Error(Arc::new(vec![p[0], p[1], p[2]]))
    } else {
        RespFrame::SimpleString(Arc::new(vec![p[0], p[1], p[2]]))
    });
    let bytes = ManuallyDrop::new(serialize_to_vec(&f));
    let bytes: &Vec<u8> = match &*bytes {
        Ok(b) => b,
        Err(_) => {
            assert!(false, "serialisation failed");
            return;
        }
    };
    let r = ManuallyDrop::new(parse_frame(bytes));
    kani::cover!(p[1] == b'\r' && p[2] == b'\n', "payload with CRLF inside");
    match &*r {
        Ok(Some((g, c))) => {
            assert!(*c == bytes.len(), "one reply = one frame: the parser consumes exactly the serialised bytes");
            match (g, is_err) {
                (RespFrame::Error(x), true) => assert!(x.len() == 3, "payload length preserved"),
                (RespFrame::SimpleString(x), false) => assert!(x.len() == 3, "payload length preserved"),
                _ => assert!(false, "frame type changed"),
            }
        }
        _ => assert!(false, "reply does not parse back to a frame"),
    }
}

#[kani::proof]
#[kani::unwind(8)]
#[kani::stub(alloc::fmt::format, fmt_stub)]
#[kani::stub(parse_integer, cut_arm)]
#[kani::stub(parse_bulk_string, cut_arm)]
#[kani::stub(parse_array, cut_arm)]
#[kani::stub(parse_double, cut_arm)]
#[kani::stub(parse_map, cut_arm)]
#[kani::stub(parse_set, cut_arm)]
fn c05_line_framing_error() {
    line_framing(true);
}

#[kani::proof]
#[kani::unwind(8)]
#[kani::stub(alloc::fmt::format, fmt_stub)]
#[kani::stub(parse_integer, cut_arm)]
#[kani::stub(parse_bulk_string, cut_arm)]
#[kani::stub(parse_array, cut_arm)]
#[kani::stub(parse_double, cut_arm)]
#[kani::stub(parse_map, cut_arm)]
#[kani::stub(parse_set, cut_arm)]
fn c05_line_framing_simple() {
    line_framing(false);
}

// ---------------------------------------------------------------- prefix lemma with a read offset
// The lemma above starts from position 0.  The parser must look only at buffer[position..]: here
// two already consumed bytes sit in front of the input (position = 2, no compaction yet).
fn prefix_lemma_offset<const N: usize>(data: [u8; N], k: usize) {
    use std::mem::ManuallyDrop;
    let junk: [u8; 2] = kani::any();
    let mut b_pre = vec![junk[0], junk[1]];
    b_pre.extend_from_slice(&data[..k]);
    let mut b_all = vec![junk[0], junk[1]];
    b_all.extend_from_slice(&data);
    let mut p_pre = ManuallyDrop::new(RespParser { buffer: b_pre, position: 2 });
    let mut p_all = ManuallyDrop::new(RespParser { buffer: b_all, position: 2 });
    let r_pre = ManuallyDrop::new(p_pre.parse());
    let r_all = ManuallyDrop::new(p_all.parse());
    kani::cover!(matches!(&*r_pre, Ok(None)), "prefix incomplete");
    match (&*r_pre, &*r_all) {
        (Ok(Some(f)), Ok(Some(g))) => {
            assert!(leaf_eq(f, g) || matches!((f, g), (RespFrame::Array(Some(_)), RespFrame::Array(Some(_)))),
                    "(1) same frame from prefix and from whole input (read offset > 0)");
        }
        (Ok(Some(_)), _) => assert!(false, "(1) frame from the prefix but not from the whole input (read offset > 0)"),
        (Err(_), Err(_)) => {}
        (Err(_), _) => assert!(false, "(2) error on the prefix but not on the whole input (read offset > 0)"),
        (Ok(None), _) => {}
    }
}
macro_rules! prefix_offset_harness {
    ($name:ident, $n:expr, $first:expr) => {
        #[kani::proof]
        #[kani::unwind(9)]
        #[kani::stub(alloc::fmt::format, fmt_stub)]
        #[kani::stub(parse_array, cut_assume)]
        #[kani::stub(parse_double, cut_assume)]
        #[kani::stub(parse_map, cut_assume)]
        #[kani::stub(parse_set, cut_assume)]
        fn $name() {
            let mut data: [u8; $n] = kani::any();
            data[0] = $first;
            let mut k = 1;
            while k < $n {
                prefix_lemma_offset::<$n>(data, k);
                k += 1;
            }
        }
    };
}
prefix_offset_harness!(c20_prefix_off_inline_p, 6, b'P');
prefix_offset_harness!(c20_prefix_off_simple, 6, b'+');
