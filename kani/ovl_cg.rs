// Overlay for src/storage/consumer_groups.rs (child module => sees private items).
// C16: pending-entry accounting of consumer groups.
//
// Invariant J of a PendingEntryList ("the representations agree"):
//   (1) every (id, e) of entries_by_id has e.id == id and id occurs exactly once in
//       entries_by_consumer[e.consumer];
//   (2) every id in entries_by_consumer[c] is a key of entries_by_id whose entry is owned by c;
//   (3) sum of the per-consumer list lengths == entries_by_id.len();
//   (4) min_pending_id / max_pending_id == smallest / greatest key (None iff empty).
// Group level adds: Consumer.pending_count == length of that consumer's list (0 if none),
// total_pending == entries_by_id.len(), consumer_count == consumers.len().
// Every harness: ONE real operation from a directly built state satisfying J with <= 3 pending
// IDs (full-width symbolic) owned by <= 2 consumers, arguments symbolic; J re-established.
#![allow(dead_code, unused)]
use super::*;
use crate::verif_common::*;
use std::mem::ManuallyDrop;

// ---------------------------------------------------------------- wall clock stub
#[repr(C)]
#[derive(Clone, Copy)]
struct RawTs {
    s: i64,
    ns: u32,
    pad: u32,
}
/// Linux `SystemTime` is `Timespec{tv_sec:i64, tv_nsec:u32(<1e9)}` (layout checked in
/// c15_cached_millis_total and again in c16_claim_idle by duration arithmetic).
fn mk_systime(s: i64, ns: u32) -> SystemTime {
    unsafe { std::mem::transmute::<RawTs, SystemTime>(RawTs { s, ns, pad: 0 }) }
}
static mut WALL_S: i64 = 2_000_000;
static mut WALL_NS: u32 = 0;
fn systime_now_stub() -> SystemTime {
    unsafe { mk_systime(WALL_S, WALL_NS) }
}
fn set_wall(s: i64, ns: u32) {
    unsafe {
        WALL_S = s;
        WALL_NS = ns;
    }
}

// ---------------------------------------------------------------- tractability stubs (exact)
// see ovl_stream.rs: a symbolic number of pushes makes later (re)allocations symbolic-sized.
fn vec_new_cap4<T>() -> Vec<T> {
    Vec::with_capacity(4)
}
fn vec_push_nogrow<T, A: std::alloc::Allocator>(v: &mut Vec<T, A>, x: T) {
    let l = v.len();
    assert!(l < v.capacity(), "harness shape: push beyond the reserved capacity");
    unsafe {
        std::ptr::write(v.as_mut_ptr().add(l), x);
        v.set_len(l + 1);
    }
}

// ---------------------------------------------------------------- builders
fn any_id() -> StreamId {
    StreamId::new(kani::any(), kani::any())
}
/// consumer names are 1-byte strings; a symbolic name is one symbolic ASCII letter, so it can
/// equal an existing consumer or be a new one without any symbolic allocation size
fn name(b: u8) -> String {
    let v = vec![b];
    unsafe { String::from_utf8_unchecked(v) }
}
fn any_name() -> (u8, String) {
    let b: u8 = kani::any();
    kani::assume(b >= b'a' && b <= b'z');
    (b, name(b))
}
fn pe(id: StreamId, owner: u8, deliveries: u32, t: SystemTime) -> PendingEntry {
    PendingEntry { id, consumer: name(owner), delivered_at: t, delivery_count: deliveries, last_delivery: t }
}
const T0: i64 = 1_000_000;

/// A consistent PendingEntryList: ids[k] owned by owners[k] (owners concrete per harness: a
/// symbolic owner would make the number of pushes per list symbolic).
fn mk_pel<const N: usize>(ids: &[StreamId; N], owners: &[u8; N]) -> PendingEntryList {
    let mut by_id = BTreeMap::new();
    let mut by_c: HashMap<String, Vec<StreamId>> = HashMap::new();
    let t = mk_systime(T0, 0);
    let mut k = 0;
    while k < N {
        by_id.insert(ids[k], pe(ids[k], owners[k], 1, t));
        by_c.entry(name(owners[k])).or_insert_with(Vec::new).push(ids[k]);
        k += 1;
    }
    let mut lo = None;
    let mut hi = None;
    if N > 0 {
        lo = Some(ids[0]);
        hi = Some(ids[N - 1]);
    }
    PendingEntryList { entries_by_id: by_id, entries_by_consumer: by_c, min_pending_id: lo, max_pending_id: hi }
}
/// The N pending IDs of the pre-state, increasing.  They are CONCRETE (with gaps below, between
/// and above, and two IDs sharing the millisecond part): symbolic keys make every position in
/// the ordered by-ID index symbolic (inserts/removals become symbolic-size moves of 100-byte
/// elements) and CBMC runs out of memory.  The code under test uses IDs only through Ord/Eq, and
/// the ID *argument* of every operation stays fully symbolic, so it takes every order position
/// relative to the pending IDs (below, equal, between, above).
fn pre_ids<const N: usize>() -> [StreamId; N] {
    let table = [StreamId::new(10, 7), StreamId::new(20, 0), StreamId::new(20, 9)];
    let mut ids = [StreamId::new(0, 0); N];
    let mut i = 0;
    while i < N {
        ids[i] = table[i];
        i += 1;
    }
    ids
}
fn count_in(list: &Vec<StreamId>, id: StreamId) -> usize {
    let mut n = 0;
    let mut i = 0;
    while i < list.len() {
        if list[i] == id {
            n += 1;
        }
        i += 1;
    }
    n
}
fn owner_of(p: &PendingEntryList, id: StreamId) -> Option<u8> {
    p.entries_by_id.get(&id).map(|e| if e.consumer.len() == 1 && e.id == id { e.consumer.as_bytes()[0] } else { 0 })
}
fn is_one_of<const N: usize>(ids: &[StreamId; N], id: StreamId) -> bool {
    let mut k = 0;
    while k < N {
        if ids[k] == id {
            return true;
        }
        k += 1;
    }
    false
}
/// NOTE on tractability: the complete comparison below (expect_pel) ran CBMC out of memory
/// (14 GB) together with any PEL operation, in both container families: every consumer name is a
/// heap String selected through a symbolic slot.  The registered harnesses therefore use
/// expect_pel_light: by-ID index content and owners (J1 by-ID part), J3 (sum of the list lengths
/// == number of pending IDs) and J4; membership of each ID in the right per-consumer list
/// (J1/J2 list part) is NOT decided.
/// Complete comparison of a PendingEntryList with the model post-state "ids[k] is pending for
/// owners[k] (None: not pending), nothing else is pending"; `cs` = every consumer name that can
/// own something.  Implies invariant J (1)-(4) for the state at hand.
fn expect_pel<const N: usize, const C: usize>(p: &PendingEntryList, ids: &[StreamId; N], owners: &[Option<u8>; N], cs: &[u8; C]) {
    expect_pel_opt(p, ids, owners, cs, true)
}
/// the same without the per-list membership part (by-ID index, counts J3, bounds J4 only)
fn expect_pel_light<const N: usize, const C: usize>(p: &PendingEntryList, ids: &[StreamId; N], owners: &[Option<u8>; N], cs: &[u8; C]) {
    expect_pel_opt(p, ids, owners, cs, false)
}
fn expect_pel_opt<const N: usize, const C: usize>(p: &PendingEntryList, ids: &[StreamId; N], owners: &[Option<u8>; N], cs: &[u8; C], full: bool) {
    let mut cnt = 0;
    let mut lo: Option<StreamId> = None;
    let mut hi: Option<StreamId> = None;
    let mut k = 0;
    while k < N {
        assert!(owner_of(p, ids[k]) == owners[k], "J1: by-ID index: owner of each ID (None = not pending)");
        if owners[k].is_some() {
            cnt += 1;
            if lo.map_or(true, |x| ids[k] < x) {
                lo = Some(ids[k]);
            }
            if hi.map_or(true, |x| ids[k] > x) {
                hi = Some(ids[k]);
            }
        }
        k += 1;
    }
    assert!(p.entries_by_id.len() == cnt, "J1: by-ID index holds exactly the pending IDs");
    let mut c = if full { 0 } else { C };
    while c < C {
        let list = p.entries_by_consumer.get(&name(cs[c]));
        let mut want = 0;
        let mut k = 0;
        while k < N {
            if owners[k] == Some(cs[c]) {
                want += 1;
                assert!(matches!(list, Some(l) if count_in(l, ids[k]) == 1), "J1/J2: pending ID exactly once in its owner's list");
            } else {
                assert!(!matches!(list, Some(l) if count_in(l, ids[k]) != 0), "J2: ID not listed under a consumer that does not own it");
            }
            k += 1;
        }
        assert!(list.map_or(0, |l| l.len()) == want, "J3: per-consumer list length == number of IDs pending for that consumer");
        c += 1;
    }
    let mut total = 0;
    for (_, l) in p.entries_by_consumer.iter() {
        total += l.len();
    }
    assert!(total == cnt, "J3: per-consumer lists add up to the pending set");
    assert!(p.min_pending_id == lo, "J4: min_pending_id == smallest pending ID");
    assert!(p.max_pending_id == hi, "J4: max_pending_id == greatest pending ID");
    assert!(p.len() == cnt && p.min_id() == lo && p.max_id() == hi && p.is_empty() == (cnt == 0), "XPENDING summary accessors");
}

macro_rules! pel_harness {
    ($name:ident, $unwind:expr, $body:expr) => {
        #[kani::proof]
        #[kani::unwind($unwind)]
        #[kani::stub(std::time::SystemTime::now, systime_now_stub)]
        #[kani::stub(std::vec::Vec::new, vec_new_cap4)]
        #[kani::stub(std::vec::Vec::push, vec_push_nogrow)]
        fn $name() {
            $body
        }
    };
}

// ---------------------------------------------------------------- PEL: add
/// add_entry(id, consumer) on {i0:a, i1:b}: afterwards id is pending for `consumer`, the others
/// keep their owner, and the representations agree.
/// Region of the known finding: id is already pending (re-delivery through XREADGROUP with an
/// explicit ID, or delivery of an ID that is pending for another consumer).
fn pel_add(kf_region: bool) {
    let ids = pre_ids::<2>();
    let mut p = ManuallyDrop::new(mk_pel(&ids, &[b'a', b'b']));
    let id = any_id();
    let (cb, _) = any_name();
    kani::assume(is_one_of(&ids, id) == kf_region);
    p.add_entry(pe(id, cb, 1, mk_systime(T0 + 5, 0)));
    kani::cover!(cb == b'a', "existing consumer");
    kani::cover!(cb == b'c', "new consumer");
    kani::cover!(kf_region || id < ids[0], "new minimum");
    let o0 = if id == ids[0] { cb } else { b'a' };
    let o1 = if id == ids[1] { cb } else { b'b' };
    if kf_region {
        expect_pel_light(&p, &ids, &[Some(o0), Some(o1)], &[b'a', b'b', cb]);
    } else {
        expect_pel_light(&p, &[ids[0], ids[1], id], &[Some(b'a'), Some(b'b'), Some(cb)], &[b'a', b'b', cb]);
    }
}
pel_harness!(c16_pel_add_rest, 5, {
    pel_add(false);
});
pel_harness!(c16_pel_add_kf, 5, {
    pel_add(true);
});

// ---------------------------------------------------------------- PEL: remove (XACK)
/// remove_entry(id) on a 2-entry list: Some(entry) iff id was pending (so an ID that is not or no
/// longer pending counts nothing); exactly id disappears.
fn pel_remove(owners: [u8; 2]) {
    pel_remove_opt(owners, false)
}
/// `unsorted`: both entries belong to one consumer whose index lists them in DECREASING ID order -
/// the state after that consumer read the greater ID and then claimed (or was re-delivered) the
/// smaller one; per-consumer lists are in arrival order, not in ID order.
fn pel_remove_opt(owners: [u8; 2], unsorted: bool) {
    let ids = pre_ids::<2>();
    let mut p = ManuallyDrop::new(mk_pel(&ids, &owners));
    if unsorted {
        assert!(owners[0] == owners[1]);
        match p.entries_by_consumer.get_mut(&name(owners[0])) {
            Some(l) => l.swap(0, 1),
            None => assert!(false, "pre-state: consumer index missing"),
        }
    }
    let id = any_id();
    let r = ManuallyDrop::new(p.remove_entry(&id));
    kani::cover!(r.is_some() && id == ids[1], "maximum removed");
    kani::cover!(r.is_some() && id == ids[0], "minimum removed");
    kani::cover!(r.is_none(), "unknown ID");
    assert!(r.is_some() == is_one_of(&ids, id), "XACK counts an ID iff it was pending");
    if let Some(e) = &*r {
        assert!(e.id == id, "removed entry is the requested one");
    }
    let mut exp = [None; 2];
    let mut k = 0;
    while k < 2 {
        exp[k] = if ids[k] == id { None } else { Some(owners[k]) };
        k += 1;
    }
    expect_pel_light(&p, &ids, &exp, &[b'a', b'b']);
}
pel_harness!(c16_pel_remove_ab, 5, {
    pel_remove([b'a', b'b']);
});
pel_harness!(c16_pel_remove_aa_unsorted, 5, {
    pel_remove_opt([b'a', b'a'], true);
});

// ---------------------------------------------------------------- PEL: transfer (XCLAIM)
/// transfer_ownership(id, c) on a 2-entry list: a pending id moves to c (also c == old owner,
/// also a new consumer), delivery counter + 1; an unknown id changes nothing.
fn pel_transfer(owners: [u8; 2]) {
    let ids = pre_ids::<2>();
    let mut p = ManuallyDrop::new(mk_pel(&ids, &owners));
    let id = any_id();
    let (cb, c) = any_name();
    set_wall(T0 + 9, 0);
    p.transfer_ownership(&id, c);
    kani::cover!(id == ids[1] && cb == b'a', "second entry claimed by a");
    kani::cover!(id == ids[0] && cb == b'a', "claimed by its own owner");
    kani::cover!(id == ids[1] && cb == b'c', "claimed by a new consumer");
    kani::cover!(!is_one_of(&ids, id), "unknown ID");
    let mut exp = [None; 2];
    let mut k = 0;
    while k < 2 {
        exp[k] = Some(if ids[k] == id { cb } else { owners[k] });
        let e = p.entries_by_id.get(&ids[k]);
        assert!(matches!(e, Some(e) if e.delivery_count == if ids[k] == id { 2 } else { 1 }), "delivery counter of exactly the claimed ID + 1");
        k += 1;
    }
    expect_pel_light(&p, &ids, &exp, &[b'a', b'b', cb]);
}
pel_harness!(c16_pel_transfer_ab, 5, {
    pel_transfer([b'a', b'b']);
});
// (shape {i0:a, i1:a} for transfer ran CBMC out of memory)

// ---------------------------------------------------------------- PEL: delete consumer
/// remove_consumer_entries(c) on a 2-entry list: exactly c's entries disappear, reply = their number.
fn pel_delconsumer(owners: [u8; 2]) {
    let ids = pre_ids::<2>();
    let mut p = ManuallyDrop::new(mk_pel(&ids, &owners));
    let (cb, c) = any_name();
    let n = p.remove_consumer_entries(&c);
    kani::cover!(cb == b'a', "consumer a");
    kani::cover!(cb == b'c', "unknown consumer");
    let mut exp = [None; 2];
    let mut cnt = 0;
    let mut k = 0;
    while k < 2 {
        if owners[k] == cb {
            cnt += 1;
        } else {
            exp[k] = Some(owners[k]);
        }
        k += 1;
    }
    assert!(n == cnt, "DELCONSUMER reply == number of entries removed");
    expect_pel_light(&p, &ids, &exp, &[b'a', b'b', cb]);
}
pel_harness!(c16_pel_delconsumer_ab, 5, {
    pel_delconsumer([b'a', b'b']);
});

// ---------------------------------------------------------------- group cursor at creation
/// XGROUP CREATE with start position x: the group's cursor is x (entries <= x are never delivered by ">").
#[kani::proof]
#[kani::unwind(5)]
#[kani::stub(std::time::SystemTime::now, systime_now_stub)]
fn c16_create_cursor_kf() {
    let m = ManuallyDrop::new(ConsumerGroupManager::new());
    let start = any_id();
    kani::assume(start != StreamId::new(0, 0));
    let r = m.create_group(name(b'g'), start);
    kani::cover!(true, "reached");
    assert!(r.is_ok(), "group created");
    let g = ManuallyDrop::new(m.get_group("g"));
    match &*g {
        Some(g) => {
            assert!(g.get_last_id() == start, "new group's cursor == requested start position");
            // XGROUP SETID to ANY id, in particular one below the current cursor (re-delivery)
            let id = any_id();
            g.set_id(id);
            assert!(g.get_last_id() == id, "SETID sets the cursor (also backwards)");
        }
        None => assert!(false, "created group can be looked up"),
    }
}
#[kani::proof]
#[kani::unwind(5)]
#[kani::stub(std::time::SystemTime::now, systime_now_stub)]
fn c16_create_cursor_rest() {
    let m = ManuallyDrop::new(ConsumerGroupManager::new());
    let start = StreamId::new(0, 0);
    let r = m.create_group(name(b'g'), start);
    kani::cover!(true, "reached");
    assert!(r.is_ok(), "group created");
    let r2 = m.create_group(name(b'g'), start);
    assert!(r2.is_err(), "second CREATE of the same group is refused");
    let g = ManuallyDrop::new(m.get_group("g"));
    match &*g {
        Some(g) => {
            assert!(g.get_last_id() == start, "new group's cursor == requested start position");
            let id = any_id();
            g.set_id(id);
            assert!(g.get_last_id() == id, "SETID sets the cursor");
        }
        None => assert!(false, "created group can be looked up"),
    }
    assert!(m.group_count() == 1, "one group");
    assert!(m.destroy_group("g") && m.group_count() == 0 && !m.destroy_group("g"), "DESTROY removes exactly that group");
}
