// Container models used ONLY in the scratch copy that Kani compiles (never in /repo).
// Family "vec": Vec-backed association lists with the API subset of std::collections that
// ferrous uses.  Semantics: a HashMap is a list of (k, v) pairs with unique keys in insertion
// order; HashSet likewise; BTreeMap is kept sorted by key; VecDeque is a Vec.
// Validated against std by /verif/kani/model_diff (native differential test).
#![allow(dead_code, unused)]
use std::borrow::Borrow;
use std::fmt;
use std::ops::{Bound, Index, IndexMut, RangeBounds};

// ------------------------------------------------------------------ HashMap
pub struct RandomState;
pub struct HashMap<K, V, S = RandomState> {
    pub items: Vec<(K, V)>,
    _s: std::marker::PhantomData<S>,
}

impl<K, V> HashMap<K, V, RandomState> {
    pub fn new() -> Self {
        HashMap { items: Vec::new(), _s: std::marker::PhantomData }
    }
    pub fn with_capacity(_n: usize) -> Self {
        Self::new()
    }
}
impl<K, V, S> HashMap<K, V, S> {
    pub fn len(&self) -> usize {
        self.items.len()
    }
    pub fn is_empty(&self) -> bool {
        self.items.is_empty()
    }
    pub fn clear(&mut self) {
        self.items.clear()
    }
    pub fn capacity(&self) -> usize {
        self.items.len()
    }
    pub fn reserve(&mut self, _n: usize) {}
    pub fn shrink_to_fit(&mut self) {}
    pub fn iter(&self) -> Iter<'_, K, V> {
        Iter { it: self.items.iter() }
    }
    pub fn iter_mut(&mut self) -> IterMut<'_, K, V> {
        IterMut { it: self.items.iter_mut() }
    }
    pub fn keys(&self) -> Keys<'_, K, V> {
        Keys { it: self.items.iter() }
    }
    pub fn values(&self) -> Values<'_, K, V> {
        Values { it: self.items.iter() }
    }
    pub fn values_mut(&mut self) -> ValuesMut<'_, K, V> {
        ValuesMut { it: self.items.iter_mut() }
    }
    pub fn into_keys(self) -> impl Iterator<Item = K> {
        self.items.into_iter().map(|(k, _)| k)
    }
    pub fn into_values(self) -> impl Iterator<Item = V> {
        self.items.into_iter().map(|(_, v)| v)
    }
    pub fn retain<F: FnMut(&K, &mut V) -> bool>(&mut self, mut f: F) {
        self.items.retain_mut(|(k, v)| f(k, v))
    }
    pub fn drain(&mut self) -> std::vec::Drain<'_, (K, V)> {
        self.items.drain(..)
    }
}

impl<K: Eq, V, S> HashMap<K, V, S> {
    fn pos<Q: ?Sized + Eq>(&self, k: &Q) -> Option<usize>
    where
        K: Borrow<Q>,
    {
        let mut i = 0;
        while i < self.items.len() {
            if self.items[i].0.borrow() == k {
                return Some(i);
            }
            i += 1;
        }
        None
    }
    pub fn insert(&mut self, k: K, v: V) -> Option<V> {
        match self.pos(&k) {
            Some(i) => Some(std::mem::replace(&mut self.items[i].1, v)),
            None => {
                self.items.push((k, v));
                None
            }
        }
    }
    pub fn get<Q: ?Sized + Eq>(&self, k: &Q) -> Option<&V>
    where
        K: Borrow<Q>,
    {
        match self.pos(k) {
            Some(i) => Some(&self.items[i].1),
            None => None,
        }
    }
    pub fn get_key_value<Q: ?Sized + Eq>(&self, k: &Q) -> Option<(&K, &V)>
    where
        K: Borrow<Q>,
    {
        match self.pos(k) {
            Some(i) => Some((&self.items[i].0, &self.items[i].1)),
            None => None,
        }
    }
    pub fn get_mut<Q: ?Sized + Eq>(&mut self, k: &Q) -> Option<&mut V>
    where
        K: Borrow<Q>,
    {
        match self.pos(k) {
            Some(i) => Some(&mut self.items[i].1),
            None => None,
        }
    }
    pub fn contains_key<Q: ?Sized + Eq>(&self, k: &Q) -> bool
    where
        K: Borrow<Q>,
    {
        self.pos(k).is_some()
    }
    pub fn remove<Q: ?Sized + Eq>(&mut self, k: &Q) -> Option<V>
    where
        K: Borrow<Q>,
    {
        match self.pos(k) {
            Some(i) => Some(self.items.remove(i).1),
            None => None,
        }
    }
    pub fn remove_entry<Q: ?Sized + Eq>(&mut self, k: &Q) -> Option<(K, V)>
    where
        K: Borrow<Q>,
    {
        match self.pos(k) {
            Some(i) => Some(self.items.remove(i)),
            None => None,
        }
    }
    pub fn entry(&mut self, k: K) -> Entry<'_, K, V, S> {
        match self.pos(&k) {
            Some(i) => Entry::Occupied(OccupiedEntry { map: self, idx: i, key: k }),
            None => Entry::Vacant(VacantEntry { map: self, key: k }),
        }
    }
    pub fn extend<I: IntoIterator<Item = (K, V)>>(&mut self, it: I) {
        for (k, v) in it {
            self.insert(k, v);
        }
    }
}

pub enum Entry<'a, K, V, S = RandomState> {
    Occupied(OccupiedEntry<'a, K, V, S>),
    Vacant(VacantEntry<'a, K, V, S>),
}
pub struct OccupiedEntry<'a, K, V, S = RandomState> {
    map: &'a mut HashMap<K, V, S>,
    idx: usize,
    key: K,
}
pub struct VacantEntry<'a, K, V, S = RandomState> {
    map: &'a mut HashMap<K, V, S>,
    key: K,
}
impl<'a, K, V, S> OccupiedEntry<'a, K, V, S> {
    pub fn get(&self) -> &V {
        &self.map.items[self.idx].1
    }
    pub fn get_mut(&mut self) -> &mut V {
        &mut self.map.items[self.idx].1
    }
    pub fn into_mut(self) -> &'a mut V {
        &mut self.map.items[self.idx].1
    }
    pub fn insert(&mut self, v: V) -> V {
        std::mem::replace(&mut self.map.items[self.idx].1, v)
    }
    pub fn remove(self) -> V {
        self.map.items.remove(self.idx).1
    }
    pub fn key(&self) -> &K {
        &self.key
    }
}
impl<'a, K, V, S> VacantEntry<'a, K, V, S> {
    pub fn insert(self, v: V) -> &'a mut V {
        self.map.items.push((self.key, v));
        let n = self.map.items.len();
        &mut self.map.items[n - 1].1
    }
    pub fn key(&self) -> &K {
        &self.key
    }
}
impl<'a, K, V, S> Entry<'a, K, V, S> {
    pub fn or_insert(self, v: V) -> &'a mut V {
        match self {
            Entry::Occupied(o) => o.into_mut(),
            Entry::Vacant(e) => e.insert(v),
        }
    }
    pub fn or_insert_with<F: FnOnce() -> V>(self, f: F) -> &'a mut V {
        match self {
            Entry::Occupied(o) => o.into_mut(),
            Entry::Vacant(e) => e.insert(f()),
        }
    }
    pub fn or_default(self) -> &'a mut V
    where
        V: Default,
    {
        match self {
            Entry::Occupied(o) => o.into_mut(),
            Entry::Vacant(e) => e.insert(V::default()),
        }
    }
    pub fn and_modify<F: FnOnce(&mut V)>(mut self, f: F) -> Self {
        if let Entry::Occupied(ref mut o) = self {
            f(o.get_mut());
        }
        self
    }
}

pub struct Iter<'a, K, V> {
    it: std::slice::Iter<'a, (K, V)>,
}
impl<'a, K, V> Iterator for Iter<'a, K, V> {
    type Item = (&'a K, &'a V);
    fn next(&mut self) -> Option<Self::Item> {
        self.it.next().map(|kv| (&kv.0, &kv.1))
    }
    fn size_hint(&self) -> (usize, Option<usize>) {
        self.it.size_hint()
    }
}
impl<'a, K, V> ExactSizeIterator for Iter<'a, K, V> {}
impl<'a, K, V> Clone for Iter<'a, K, V> {
    fn clone(&self) -> Self {
        Iter { it: self.it.clone() }
    }
}
pub struct IterMut<'a, K, V> {
    it: std::slice::IterMut<'a, (K, V)>,
}
impl<'a, K, V> Iterator for IterMut<'a, K, V> {
    type Item = (&'a K, &'a mut V);
    fn next(&mut self) -> Option<Self::Item> {
        self.it.next().map(|kv| (&kv.0, &mut kv.1))
    }
}
pub struct Keys<'a, K, V> {
    it: std::slice::Iter<'a, (K, V)>,
}
impl<'a, K, V> Iterator for Keys<'a, K, V> {
    type Item = &'a K;
    fn next(&mut self) -> Option<Self::Item> {
        self.it.next().map(|kv| &kv.0)
    }
    fn size_hint(&self) -> (usize, Option<usize>) {
        self.it.size_hint()
    }
}
impl<'a, K, V> ExactSizeIterator for Keys<'a, K, V> {}
impl<'a, K, V> Clone for Keys<'a, K, V> {
    fn clone(&self) -> Self {
        Keys { it: self.it.clone() }
    }
}
pub struct Values<'a, K, V> {
    it: std::slice::Iter<'a, (K, V)>,
}
impl<'a, K, V> Iterator for Values<'a, K, V> {
    type Item = &'a V;
    fn next(&mut self) -> Option<Self::Item> {
        self.it.next().map(|kv| &kv.1)
    }
    fn size_hint(&self) -> (usize, Option<usize>) {
        self.it.size_hint()
    }
}
impl<'a, K, V> ExactSizeIterator for Values<'a, K, V> {}
pub struct ValuesMut<'a, K, V> {
    it: std::slice::IterMut<'a, (K, V)>,
}
impl<'a, K, V> Iterator for ValuesMut<'a, K, V> {
    type Item = &'a mut V;
    fn next(&mut self) -> Option<Self::Item> {
        self.it.next().map(|kv| &mut kv.1)
    }
}

impl<K, V, S> IntoIterator for HashMap<K, V, S> {
    type Item = (K, V);
    type IntoIter = std::vec::IntoIter<(K, V)>;
    fn into_iter(self) -> Self::IntoIter {
        self.items.into_iter()
    }
}
impl<'a, K, V, S> IntoIterator for &'a HashMap<K, V, S> {
    type Item = (&'a K, &'a V);
    type IntoIter = Iter<'a, K, V>;
    fn into_iter(self) -> Self::IntoIter {
        self.iter()
    }
}
impl<'a, K, V, S> IntoIterator for &'a mut HashMap<K, V, S> {
    type Item = (&'a K, &'a mut V);
    type IntoIter = IterMut<'a, K, V>;
    fn into_iter(self) -> Self::IntoIter {
        self.iter_mut()
    }
}
impl<K: Eq, V, S> FromIterator<(K, V)> for HashMap<K, V, S> {
    fn from_iter<I: IntoIterator<Item = (K, V)>>(it: I) -> Self {
        let mut m = HashMap { items: Vec::new(), _s: std::marker::PhantomData };
        for (k, v) in it {
            m.insert(k, v);
        }
        m
    }
}
impl<K: Eq, V, S, const N: usize> From<[(K, V); N]> for HashMap<K, V, S> {
    fn from(a: [(K, V); N]) -> Self {
        a.into_iter().collect()
    }
}
impl<K, V, S> Default for HashMap<K, V, S> {
    fn default() -> Self {
        HashMap { items: Vec::new(), _s: std::marker::PhantomData }
    }
}
impl<K: Clone, V: Clone, S> Clone for HashMap<K, V, S> {
    fn clone(&self) -> Self {
        HashMap { items: self.items.clone(), _s: std::marker::PhantomData }
    }
}
impl<K: fmt::Debug, V: fmt::Debug, S> fmt::Debug for HashMap<K, V, S> {
    fn fmt(&self, f: &mut fmt::Formatter<'_>) -> fmt::Result {
        f.write_str("HashMap")
    }
}
impl<K: Eq, V: PartialEq, S> PartialEq for HashMap<K, V, S> {
    fn eq(&self, o: &Self) -> bool {
        if self.len() != o.len() {
            return false;
        }
        self.items.iter().all(|(k, v)| o.get(k).map_or(false, |w| v == w))
    }
}
impl<K: Eq, V: Eq, S> Eq for HashMap<K, V, S> {}
impl<K: Eq + Borrow<Q>, Q: ?Sized + Eq, V, S> Index<&Q> for HashMap<K, V, S> {
    type Output = V;
    fn index(&self, k: &Q) -> &V {
        self.get(k).expect("no entry found for key")
    }
}

// ------------------------------------------------------------------ HashSet
pub struct HashSet<T, S = RandomState> {
    pub items: Vec<T>,
    _s: std::marker::PhantomData<S>,
}
impl<T> HashSet<T, RandomState> {
    pub fn new() -> Self {
        HashSet { items: Vec::new(), _s: std::marker::PhantomData }
    }
    pub fn with_capacity(_n: usize) -> Self {
        Self::new()
    }
}
impl<T, S> HashSet<T, S> {
    pub fn len(&self) -> usize {
        self.items.len()
    }
    pub fn is_empty(&self) -> bool {
        self.items.is_empty()
    }
    pub fn clear(&mut self) {
        self.items.clear()
    }
    pub fn capacity(&self) -> usize {
        self.items.len()
    }
    pub fn reserve(&mut self, _n: usize) {}
    pub fn iter(&self) -> std::slice::Iter<'_, T> {
        self.items.iter()
    }
    pub fn retain<F: FnMut(&T) -> bool>(&mut self, f: F) {
        self.items.retain(f)
    }
    pub fn drain(&mut self) -> std::vec::Drain<'_, T> {
        self.items.drain(..)
    }
}
impl<T: Eq, S> HashSet<T, S> {
    fn pos<Q: ?Sized + Eq>(&self, k: &Q) -> Option<usize>
    where
        T: Borrow<Q>,
    {
        let mut i = 0;
        while i < self.items.len() {
            if self.items[i].borrow() == k {
                return Some(i);
            }
            i += 1;
        }
        None
    }
    pub fn insert(&mut self, t: T) -> bool {
        if self.pos(&t).is_some() {
            false
        } else {
            self.items.push(t);
            true
        }
    }
    pub fn contains<Q: ?Sized + Eq>(&self, k: &Q) -> bool
    where
        T: Borrow<Q>,
    {
        self.pos(k).is_some()
    }
    pub fn get<Q: ?Sized + Eq>(&self, k: &Q) -> Option<&T>
    where
        T: Borrow<Q>,
    {
        match self.pos(k) {
            Some(i) => Some(&self.items[i]),
            None => None,
        }
    }
    pub fn remove<Q: ?Sized + Eq>(&mut self, k: &Q) -> bool
    where
        T: Borrow<Q>,
    {
        match self.pos(k) {
            Some(i) => {
                self.items.remove(i);
                true
            }
            None => false,
        }
    }
    pub fn take<Q: ?Sized + Eq>(&mut self, k: &Q) -> Option<T>
    where
        T: Borrow<Q>,
    {
        match self.pos(k) {
            Some(i) => Some(self.items.remove(i)),
            None => None,
        }
    }
    pub fn extend<I: IntoIterator<Item = T>>(&mut self, it: I) {
        for t in it {
            self.insert(t);
        }
    }
    pub fn is_subset(&self, o: &Self) -> bool {
        self.items.iter().all(|t| o.contains(t))
    }
    pub fn intersection<'a>(&'a self, o: &'a Self) -> impl Iterator<Item = &'a T> + 'a {
        self.items.iter().filter(move |t| o.contains(*t))
    }
    pub fn difference<'a>(&'a self, o: &'a Self) -> impl Iterator<Item = &'a T> + 'a {
        self.items.iter().filter(move |t| !o.contains(*t))
    }
    pub fn union<'a>(&'a self, o: &'a Self) -> impl Iterator<Item = &'a T> + 'a {
        self.items.iter().chain(o.items.iter().filter(move |t| !self.contains(*t)))
    }
}
impl<T, S> IntoIterator for HashSet<T, S> {
    type Item = T;
    type IntoIter = std::vec::IntoIter<T>;
    fn into_iter(self) -> Self::IntoIter {
        self.items.into_iter()
    }
}
impl<'a, T, S> IntoIterator for &'a HashSet<T, S> {
    type Item = &'a T;
    type IntoIter = std::slice::Iter<'a, T>;
    fn into_iter(self) -> Self::IntoIter {
        self.items.iter()
    }
}
impl<T: Eq, S> FromIterator<T> for HashSet<T, S> {
    fn from_iter<I: IntoIterator<Item = T>>(it: I) -> Self {
        let mut s = HashSet { items: Vec::new(), _s: std::marker::PhantomData };
        for t in it {
            s.insert(t);
        }
        s
    }
}
impl<T, S> Default for HashSet<T, S> {
    fn default() -> Self {
        HashSet { items: Vec::new(), _s: std::marker::PhantomData }
    }
}
impl<T: Clone, S> Clone for HashSet<T, S> {
    fn clone(&self) -> Self {
        HashSet { items: self.items.clone(), _s: std::marker::PhantomData }
    }
}
impl<T, S> fmt::Debug for HashSet<T, S> {
    fn fmt(&self, f: &mut fmt::Formatter<'_>) -> fmt::Result {
        f.write_str("HashSet")
    }
}
impl<T: Eq, S> PartialEq for HashSet<T, S> {
    fn eq(&self, o: &Self) -> bool {
        self.len() == o.len() && self.is_subset(o)
    }
}
impl<T: Eq, S> Eq for HashSet<T, S> {}

// ------------------------------------------------------------------ BTreeMap
pub struct BTreeMap<K, V> {
    pub items: Vec<(K, V)>, // sorted by key, unique
}
impl<K, V> BTreeMap<K, V> {
    pub fn new() -> Self {
        BTreeMap { items: Vec::new() }
    }
    pub fn len(&self) -> usize {
        self.items.len()
    }
    pub fn is_empty(&self) -> bool {
        self.items.is_empty()
    }
    pub fn clear(&mut self) {
        self.items.clear()
    }
    pub fn iter(&self) -> Iter<'_, K, V> {
        Iter { it: self.items.iter() }
    }
    pub fn iter_mut(&mut self) -> IterMut<'_, K, V> {
        IterMut { it: self.items.iter_mut() }
    }
    pub fn keys(&self) -> Keys<'_, K, V> {
        Keys { it: self.items.iter() }
    }
    pub fn values(&self) -> Values<'_, K, V> {
        Values { it: self.items.iter() }
    }
    pub fn values_mut(&mut self) -> ValuesMut<'_, K, V> {
        ValuesMut { it: self.items.iter_mut() }
    }
    pub fn first_key_value(&self) -> Option<(&K, &V)> {
        self.items.first().map(|kv| (&kv.0, &kv.1))
    }
    pub fn last_key_value(&self) -> Option<(&K, &V)> {
        self.items.last().map(|kv| (&kv.0, &kv.1))
    }
    pub fn retain<F: FnMut(&K, &mut V) -> bool>(&mut self, mut f: F) {
        self.items.retain_mut(|(k, v)| f(k, v))
    }
}
impl<K: Ord, V> BTreeMap<K, V> {
    // first index whose key is >= k ; (idx, found)
    fn lb<Q: ?Sized + Ord>(&self, k: &Q) -> (usize, bool)
    where
        K: Borrow<Q>,
    {
        let mut i = 0;
        while i < self.items.len() {
            match self.items[i].0.borrow().cmp(k) {
                std::cmp::Ordering::Less => {}
                std::cmp::Ordering::Equal => return (i, true),
                std::cmp::Ordering::Greater => return (i, false),
            }
            i += 1;
        }
        (i, false)
    }
    pub fn insert(&mut self, k: K, v: V) -> Option<V> {
        let (i, found) = self.lb(&k);
        if found {
            Some(std::mem::replace(&mut self.items[i].1, v))
        } else {
            self.items.insert(i, (k, v));
            None
        }
    }
    pub fn get<Q: ?Sized + Ord>(&self, k: &Q) -> Option<&V>
    where
        K: Borrow<Q>,
    {
        let (i, found) = self.lb(k);
        if found {
            Some(&self.items[i].1)
        } else {
            None
        }
    }
    pub fn get_mut<Q: ?Sized + Ord>(&mut self, k: &Q) -> Option<&mut V>
    where
        K: Borrow<Q>,
    {
        let (i, found) = self.lb(k);
        if found {
            Some(&mut self.items[i].1)
        } else {
            None
        }
    }
    pub fn contains_key<Q: ?Sized + Ord>(&self, k: &Q) -> bool
    where
        K: Borrow<Q>,
    {
        self.lb(k).1
    }
    pub fn remove<Q: ?Sized + Ord>(&mut self, k: &Q) -> Option<V>
    where
        K: Borrow<Q>,
    {
        let (i, found) = self.lb(k);
        if found {
            Some(self.items.remove(i).1)
        } else {
            None
        }
    }
    pub fn range<Q: ?Sized + Ord, R: RangeBounds<Q>>(&self, r: R) -> Iter<'_, K, V>
    where
        K: Borrow<Q>,
    {
        let n = self.items.len();
        let lo = match r.start_bound() {
            Bound::Unbounded => 0,
            Bound::Included(k) => self.lb(k).0,
            Bound::Excluded(k) => {
                let (i, f) = self.lb(k);
                if f {
                    i + 1
                } else {
                    i
                }
            }
        };
        let hi = match r.end_bound() {
            Bound::Unbounded => n,
            Bound::Included(k) => {
                let (i, f) = self.lb(k);
                if f {
                    i + 1
                } else {
                    i
                }
            }
            Bound::Excluded(k) => self.lb(k).0,
        };
        let hi = if hi < lo { lo } else { hi };
        Iter { it: self.items[lo..hi].iter() }
    }
    pub fn entry(&mut self, k: K) -> BEntry<'_, K, V> {
        let (i, found) = self.lb(&k);
        BEntry { map: self, idx: i, found, key: k }
    }
}
pub struct BEntry<'a, K, V> {
    map: &'a mut BTreeMap<K, V>,
    idx: usize,
    found: bool,
    key: K,
}
impl<'a, K, V> BEntry<'a, K, V> {
    pub fn or_insert_with<F: FnOnce() -> V>(self, f: F) -> &'a mut V {
        if !self.found {
            self.map.items.insert(self.idx, (self.key, f()));
        }
        &mut self.map.items[self.idx].1
    }
    pub fn or_insert(self, v: V) -> &'a mut V {
        self.or_insert_with(|| v)
    }
    pub fn or_default(self) -> &'a mut V
    where
        V: Default,
    {
        self.or_insert_with(V::default)
    }
}
impl<K, V> IntoIterator for BTreeMap<K, V> {
    type Item = (K, V);
    type IntoIter = std::vec::IntoIter<(K, V)>;
    fn into_iter(self) -> Self::IntoIter {
        self.items.into_iter()
    }
}
impl<'a, K, V> IntoIterator for &'a BTreeMap<K, V> {
    type Item = (&'a K, &'a V);
    type IntoIter = Iter<'a, K, V>;
    fn into_iter(self) -> Self::IntoIter {
        self.iter()
    }
}
impl<K, V> Default for BTreeMap<K, V> {
    fn default() -> Self {
        Self::new()
    }
}
impl<K: Clone, V: Clone> Clone for BTreeMap<K, V> {
    fn clone(&self) -> Self {
        BTreeMap { items: self.items.clone() }
    }
}
impl<K, V> fmt::Debug for BTreeMap<K, V> {
    fn fmt(&self, f: &mut fmt::Formatter<'_>) -> fmt::Result {
        f.write_str("BTreeMap")
    }
}
impl<K: Ord, V> FromIterator<(K, V)> for BTreeMap<K, V> {
    fn from_iter<I: IntoIterator<Item = (K, V)>>(it: I) -> Self {
        let mut m = BTreeMap::new();
        for (k, v) in it {
            m.insert(k, v);
        }
        m
    }
}

// ------------------------------------------------------------------ VecDeque
pub struct VecDeque<T> {
    pub items: Vec<T>,
}
impl<T> VecDeque<T> {
    pub fn new() -> Self {
        VecDeque { items: Vec::new() }
    }
    pub fn with_capacity(_n: usize) -> Self {
        Self::new()
    }
    pub fn len(&self) -> usize {
        self.items.len()
    }
    pub fn is_empty(&self) -> bool {
        self.items.is_empty()
    }
    pub fn clear(&mut self) {
        self.items.clear()
    }
    pub fn capacity(&self) -> usize {
        self.items.len()
    }
    pub fn push_back(&mut self, t: T) {
        self.items.push(t)
    }
    pub fn push_front(&mut self, t: T) {
        self.items.insert(0, t)
    }
    pub fn pop_back(&mut self) -> Option<T> {
        self.items.pop()
    }
    pub fn pop_front(&mut self) -> Option<T> {
        if self.items.is_empty() {
            None
        } else {
            Some(self.items.remove(0))
        }
    }
    pub fn front(&self) -> Option<&T> {
        self.items.first()
    }
    pub fn back(&self) -> Option<&T> {
        self.items.last()
    }
    pub fn front_mut(&mut self) -> Option<&mut T> {
        self.items.first_mut()
    }
    pub fn back_mut(&mut self) -> Option<&mut T> {
        self.items.last_mut()
    }
    pub fn get(&self, i: usize) -> Option<&T> {
        self.items.get(i)
    }
    pub fn get_mut(&mut self, i: usize) -> Option<&mut T> {
        self.items.get_mut(i)
    }
    pub fn iter(&self) -> std::slice::Iter<'_, T> {
        self.items.iter()
    }
    pub fn iter_mut(&mut self) -> std::slice::IterMut<'_, T> {
        self.items.iter_mut()
    }
    pub fn remove(&mut self, i: usize) -> Option<T> {
        if i < self.items.len() {
            Some(self.items.remove(i))
        } else {
            None
        }
    }
    pub fn insert(&mut self, i: usize, t: T) {
        self.items.insert(i, t)
    }
    pub fn truncate(&mut self, n: usize) {
        self.items.truncate(n)
    }
    pub fn retain<F: FnMut(&T) -> bool>(&mut self, f: F) {
        self.items.retain(f)
    }
    pub fn drain<R: RangeBounds<usize>>(&mut self, r: R) -> std::vec::Drain<'_, T> {
        self.items.drain(r)
    }
    pub fn range<R: RangeBounds<usize>>(&self, r: R) -> std::slice::Iter<'_, T> {
        let n = self.items.len();
        let lo = match r.start_bound() {
            Bound::Unbounded => 0,
            Bound::Included(&i) => i,
            Bound::Excluded(&i) => i + 1,
        };
        let hi = match r.end_bound() {
            Bound::Unbounded => n,
            Bound::Included(&i) => i + 1,
            Bound::Excluded(&i) => i,
        };
        self.items[lo..hi].iter()
    }
    pub fn split_off(&mut self, at: usize) -> Self {
        VecDeque { items: self.items.split_off(at) }
    }
    pub fn make_contiguous(&mut self) -> &mut [T] {
        &mut self.items[..]
    }
    pub fn as_slices(&self) -> (&[T], &[T]) {
        (&self.items[..], &[])
    }
    pub fn extend<I: IntoIterator<Item = T>>(&mut self, it: I) {
        for t in it {
            self.items.push(t);
        }
    }
    pub fn append(&mut self, o: &mut Self) {
        self.items.append(&mut o.items)
    }
    pub fn contains(&self, t: &T) -> bool
    where
        T: PartialEq,
    {
        self.items.contains(t)
    }
    pub fn swap(&mut self, i: usize, j: usize) {
        self.items.swap(i, j)
    }
    pub fn reserve(&mut self, _n: usize) {}
    pub fn shrink_to_fit(&mut self) {}
}
impl<T> Index<usize> for VecDeque<T> {
    type Output = T;
    fn index(&self, i: usize) -> &T {
        &self.items[i]
    }
}
impl<T> IndexMut<usize> for VecDeque<T> {
    fn index_mut(&mut self, i: usize) -> &mut T {
        &mut self.items[i]
    }
}
impl<T> IntoIterator for VecDeque<T> {
    type Item = T;
    type IntoIter = std::vec::IntoIter<T>;
    fn into_iter(self) -> Self::IntoIter {
        self.items.into_iter()
    }
}
impl<'a, T> IntoIterator for &'a VecDeque<T> {
    type Item = &'a T;
    type IntoIter = std::slice::Iter<'a, T>;
    fn into_iter(self) -> Self::IntoIter {
        self.items.iter()
    }
}
impl<'a, T> IntoIterator for &'a mut VecDeque<T> {
    type Item = &'a mut T;
    type IntoIter = std::slice::IterMut<'a, T>;
    fn into_iter(self) -> Self::IntoIter {
        self.items.iter_mut()
    }
}
impl<T> FromIterator<T> for VecDeque<T> {
    fn from_iter<I: IntoIterator<Item = T>>(it: I) -> Self {
        VecDeque { items: it.into_iter().collect() }
    }
}
impl<T> From<Vec<T>> for VecDeque<T> {
    fn from(v: Vec<T>) -> Self {
        VecDeque { items: v }
    }
}
impl<T> From<VecDeque<T>> for Vec<T> {
    fn from(v: VecDeque<T>) -> Self {
        v.items
    }
}
impl<T> Default for VecDeque<T> {
    fn default() -> Self {
        Self::new()
    }
}
impl<T: Clone> Clone for VecDeque<T> {
    fn clone(&self) -> Self {
        VecDeque { items: self.items.clone() }
    }
}
impl<T> fmt::Debug for VecDeque<T> {
    fn fmt(&self, f: &mut fmt::Formatter<'_>) -> fmt::Result {
        f.write_str("VecDeque")
    }
}
impl<T: PartialEq> PartialEq for VecDeque<T> {
    fn eq(&self, o: &Self) -> bool {
        self.items == o.items
    }
}
impl<T: Eq> Eq for VecDeque<T> {}
