// Overlay for src/storage/stream.rs (child module => sees private items).
// C15 (streams: ID order, ID generation, exact ranges, length/metadata agreement) and the
// Stream-level part of C16 (read_group cursor).
//
// Shape of every state harness: ONE real operation from a directly built pre-state that satisfies
// the stream invariant
//   I: entries strictly increasing by ID, every present ID <= data.last_id,
//      (last_id_millis, last_id_seq) == data.last_id, length == entries.len(),
//      memory counters >= base + sum of entry sizes
// with full-width symbolic 128-bit IDs.  `last_id >= every present ID` (not ==) covers all states
// reachable after deletions and trims.  Each mutating harness re-establishes I on the post-state,
// so the per-operation results compose by induction over histories.
#![allow(dead_code, unused)]
use super::*;
use crate::verif_common::*;
use std::mem::ManuallyDrop;

// ---------------------------------------------------------------- time stubs
#[repr(C)]
#[derive(Clone, Copy)]
struct RawTs {
    s: i64,
    ns: u32,
    pad: u32,
}
/// Linux `SystemTime` is `Timespec{tv_sec:i64, tv_nsec:u32(<1e9)}`; layout checked by
/// harness `c15_cached_millis_total` (duration_since(UNIX_EPOCH) must give back (s, ns)).
fn mk_systime(s: i64, ns: u32) -> SystemTime {
    unsafe { std::mem::transmute::<RawTs, SystemTime>(RawTs { s, ns, pad: 0 }) }
}
static mut WALL_S: i64 = 0;
static mut WALL_NS: u32 = 0;
fn systime_now_stub() -> SystemTime {
    unsafe { mk_systime(WALL_S, WALL_NS) }
}
/// Stub for the private `get_cached_millis`: the wall clock in milliseconds is an arbitrary u64
/// chosen by the harness (over-approximates every possible behaviour of the cache, including a
/// clock that jumps backwards).  The real function is decided separately (c15_cached_millis_total).
static mut NOW_MS: u64 = 0;
fn cached_millis_stub() -> u64 {
    unsafe { NOW_MS }
}

// ---------------------------------------------------------------- tractability stubs (exact)
// A symbolic number of `Vec::push` calls makes the capacity symbolic after the first merge point,
// and every later (re)allocation symbolic-sized: CBMC runs out of memory.  `Vec::new` reserves 4
// slots (capacity is unobservable) and `Vec::push` writes without growing; a push beyond the
// reservation FAILS the harness, so nothing is cut.
fn vec_new_cap4<T>() -> Vec<T> {
    Vec::with_capacity(4)
}
fn vec_push_nogrow<T, A: std::alloc::Allocator>(v: &mut Vec<T, A>, x: T) {
    let l = v.len();
    assert!(l < v.capacity(), "harness shape: push beyond the reserved capacity");
    unsafe {
        std::ptr::write(v.as_mut_ptr().add(l), x);
        v.set_len(l + 1);
    }
}
/// `StreamEntry::clone` at a symbolic index clones a field map whose (ptr, len) are symbolic
/// (symbolic-size allocation + copy).  In the harnesses that use this stub every stored entry has
/// an empty field map; the stub asserts that, so returning an empty map is an exact clone.
fn entry_clone_nofields(e: &StreamEntry) -> StreamEntry {
    assert!(e.fields.len() == 0, "harness shape: entries without fields");
    StreamEntry { id: e.id, fields: HashMap::new() }
}
/// `ptr::copy` (memmove) with a symbolic element count (Vec::remove, Drain drop after a symbolic
/// binary-search index) is a symbolic-size copy.  Exact replacement by per-element moves in the
/// overlap-safe direction; every single move has a concrete size.
unsafe fn ptr_copy_elementwise<T>(src: *const T, dst: *mut T, count: usize) {
    if (dst as *const T) <= src {
        let mut i = 0;
        while i < count {
            std::ptr::write(dst.add(i), std::ptr::read(src.add(i)));
            i += 1;
        }
    } else {
        let mut i = count;
        while i > 0 {
            i -= 1;
            std::ptr::write(dst.add(i), std::ptr::read(src.add(i)));
        }
    }
}
/// harness with the exact Vec::new / Vec::push / StreamEntry::clone stubs above
macro_rules! state_harness {
    ($name:ident, $unwind:expr, $body:expr) => {
        #[kani::proof]
        #[kani::unwind($unwind)]
        #[kani::stub(std::vec::Vec::new, vec_new_cap4)]
        #[kani::stub(std::vec::Vec::push, vec_push_nogrow)]
        #[kani::stub(<StreamEntry as std::clone::Clone>::clone, entry_clone_nofields)]
        #[kani::stub(get_cached_millis, cached_millis_stub)]
        fn $name() {
            $body
        }
    };
}

// ---------------------------------------------------------------- builders
fn any_id() -> StreamId {
    StreamId { packed: kani::any() }
}
fn ent(id: StreamId) -> StreamEntry {
    StreamEntry { id, fields: HashMap::new() }
}
fn ent1(id: StreamId, f: u8, v: u8) -> StreamEntry {
    let mut m = HashMap::new();
    m.insert(vec![f], vec![v]);
    StreamEntry { id, fields: m }
}
/// Stream built by struct literal: consistent metadata, no real operation involved.
fn mk_stream(entries: Vec<StreamEntry>, last: StreamId) -> Stream {
    let n = entries.len();
    let mut mem = 0usize;
    let mut i = 0;
    while i < n {
        mem += StreamData::calculate_entry_size(&entries[i]);
        i += 1;
    }
    Stream {
        data: Mutex::new(StreamData { entries, last_id: last, memory_usage: std::mem::size_of::<StreamData>() + mem }),
        _pad1: [0; 64],
        last_id_millis: AtomicU64::new(last.millis()),
        last_id_seq: AtomicU64::new(last.seq()),
        _pad2: [0; 48],
        length: AtomicUsize::new(n),
        memory_usage: AtomicUsize::new(std::mem::size_of::<Stream>() + mem),
        consumer_groups: Arc::new(ConsumerGroupManager::new()),
    }
}
/// N symbolic IDs, strictly increasing, and a last_id >= all of them.
fn any_sorted_ids<const N: usize>() -> ([StreamId; N], StreamId) {
    let mut ids = [StreamId { packed: 0 }; N];
    let mut i = 0;
    while i < N {
        ids[i] = any_id();
        if i > 0 {
            kani::assume(ids[i - 1] < ids[i]);
        }
        i += 1;
    }
    let last = any_id();
    if N > 0 {
        kani::assume(last >= ids[N - 1]);
    }
    (ids, last)
}
fn mk_stream_ids<const N: usize>(ids: &[StreamId; N], last: StreamId) -> Stream {
    let mut v = Vec::new();
    let mut i = 0;
    while i < N {
        v.push(ent(ids[i]));
        i += 1;
    }
    mk_stream(v, last)
}

/// post-state: the stream invariant I and exactly the expected IDs present, in order
fn check_state(s: &Stream, exp: &[StreamId], exp_last: StreamId) {
    let d = s.data.lock().unwrap();
    assert!(d.entries.len() == exp.len(), "number of present entries");
    let mut i = 0;
    while i < exp.len() {
        assert!(d.entries[i].id == exp[i], "present entries (IDs, in order)");
        i += 1;
    }
    assert!(d.last_id == exp_last, "data.last_id");
    assert!(s.last_id_millis.load(Ordering::Relaxed) == exp_last.millis(), "last_id_millis copy agrees");
    assert!(s.last_id_seq.load(Ordering::Relaxed) == exp_last.seq(), "last_id_seq copy agrees");
    assert!(s.len() == exp.len(), "XLEN == number of present entries");
    drop(d);
}

// ---------------------------------------------------------------- ID parsing
fn is_digit(b: u8) -> bool {
    b >= b'0' && b <= b'9'
}
/// decimal value of an all-digit slice, None if a byte is not a digit or the slice is empty or
/// the value does not fit u64
fn ref_u64(b: &[u8]) -> Option<u64> {
    if b.is_empty() {
        return None;
    }
    let mut v: u128 = 0;
    let mut i = 0;
    while i < b.len() {
        if !is_digit(b[i]) {
            return None;
        }
        v = v * 10 + (b[i] - b'0') as u128;
        if v > u64::MAX as u128 {
            return None;
        }
        i += 1;
    }
    Some(v as u64)
}
fn first_dash(b: &[u8]) -> Option<usize> {
    let mut i = 0;
    while i < b.len() {
        if b[i] == b'-' {
            return Some(i);
        }
        i += 1;
    }
    None
}
/// Reference grammar: "<ms>-<seq>", both parts non-empty decimal u64 (Redis streamParseStrictID;
/// ferrous does not implement the "<ms>" short form and refuses it cleanly, which is accepted).
fn ref_id(b: &[u8]) -> Option<StreamId> {
    let d = first_dash(b)?;
    let ms = ref_u64(&b[..d])?;
    let seq = ref_u64(&b[d + 1..])?;
    Some(StreamId::new(ms, seq))
}
/// region of the known finding "empty numeric part accepted as 0"
fn has_empty_part(b: &[u8]) -> bool {
    match first_dash(b) {
        Some(d) => d == 0 || d + 1 == b.len(),
        None => false,
    }
}

fn id_parse_ascii(kf_region: bool) {
    let data: [u8; 5] = kani::any();
    let n: usize = kani::any();
    kani::assume(n <= 5);
    let mut i = 0;
    while i < 5 {
        kani::assume(data[i] < 0x80);
        i += 1;
    }
    let b = &data[..n];
    kani::assume(has_empty_part(b) == kf_region);
    kani::cover!(true, "region reachable");
    let s = unsafe { std::str::from_utf8_unchecked(b) }; // ASCII: valid UTF-8 by construction
    let got = StreamId::from_string(s);
    let exp = ref_id(b);
    kani::cover!(kf_region || got.is_some(), "some ID accepted");
    kani::cover!(kf_region || got.is_none(), "some text refused");
    assert!(got == exp, "StreamId::from_string agrees with the reference grammar <ms>-<seq>");
}

#[kani::proof]
#[kani::unwind(7)]
fn c15_id_parse_rest() {
    id_parse_ascii(false);
}
#[kani::proof]
#[kani::unwind(7)]
fn c15_id_parse_kf() {
    id_parse_ascii(true);
}

/// region of the known finding "XADD id: byte after the first '-' is a UTF-8 continuation byte"
fn dash_then_continuation(b: &[u8]) -> bool {
    match first_dash(b) {
        Some(d) => d + 1 < b.len() && b[d + 1] >= 0x80 && b[d + 1] < 0xC0,
        None => false,
    }
}
/// The ID argument path of XADD (commands/streams.rs handle_xadd, explicit-ID arm): the raw
/// argument bytes go through `from_utf8_unchecked` into `StreamId::from_string`.  Arbitrary bytes
/// (incl. invalid UTF-8) must never panic, and whatever is accepted must be the reference value.
fn xadd_id_bytes(kf_region: bool) {
    let data: [u8; 4] = kani::any();
    let n: usize = kani::any();
    kani::assume(n <= 4);
    let b = &data[..n];
    kani::assume(dash_then_continuation(b) == kf_region);
    let id_str = unsafe { std::str::from_utf8_unchecked(b) };
    kani::cover!(true, "region reachable");
    let got = StreamId::from_string(id_str);
    kani::cover!(kf_region || got.is_some(), "some ID accepted");
    kani::cover!(kf_region || got.is_none(), "some argument refused");
    if let Some(id) = got {
        // accepted => the argument is <digits>-<digits> (possibly with an empty part: separate finding)
        let d = first_dash(b);
        assert!(d.is_some(), "accepted ID has a dash");
        let d = d.unwrap();
        let mut i = 0;
        while i < n {
            assert!(i == d || is_digit(b[i]), "accepted ID consists of digits and one dash");
            i += 1;
        }
        if !has_empty_part(b) {
            assert!(Some(id) == ref_id(b), "accepted ID has the reference value");
        }
    }
}
#[kani::proof]
#[kani::unwind(6)]
fn c15_xadd_idbytes_rest() {
    xadd_id_bytes(false);
}
#[kani::proof]
#[kani::unwind(6)]
fn c15_xadd_idbytes_kf() {
    xadd_id_bytes(true);
}

/// parse_u64_fast on exactly 20 digits (the only length at which a u64 can overflow without a
/// longer input): value fits => exact; value does not fit => must be refused.
fn parse_u64_20(kf_region: bool) {
    let d: [u8; 20] = kani::any();
    let mut v: u128 = 0;
    let mut i = 0;
    while i < 20 {
        kani::assume(is_digit(d[i]));
        v = v * 10 + (d[i] - b'0') as u128;
        i += 1;
    }
    let fits = v <= u64::MAX as u128;
    kani::assume(fits != kf_region);
    let got = StreamId::parse_u64_fast(&d);
    kani::cover!(true, "reached");
    if fits {
        assert!(got == Some(v as u64), "20-digit decimal that fits u64 parses exactly");
    } else {
        assert!(got.is_none(), "decimal above u64::MAX must be refused, not wrapped");
    }
}
#[kani::proof]
#[kani::unwind(22)]
fn c15_parse_u64_20digits_rest() {
    parse_u64_20(false);
}
#[kani::proof]
#[kani::unwind(22)]
fn c15_parse_u64_20digits_kf() {
    parse_u64_20(true);
}

/// StreamId order == lexicographic order on (millis, seq); new/millis/seq round trip.
#[kani::proof]
fn c15_id_order() {
    let (am, as_, bm, bs): (u64, u64, u64, u64) = (kani::any(), kani::any(), kani::any(), kani::any());
    let a = StreamId::new(am, as_);
    let b = StreamId::new(bm, bs);
    assert!(a.millis() == am && a.seq() == as_, "new/millis/seq round trip");
    let lex = if am != bm { am.cmp(&bm) } else { as_.cmp(&bs) };
    assert!(a.cmp(&b) == lex, "Ord is lexicographic on (millis, seq)");
    assert!(a.partial_cmp(&b) == Some(lex), "PartialOrd agrees");
    assert!((a == b) == (am == bm && as_ == bs), "Eq agrees");
    assert!(StreamId::min() <= a && a <= StreamId::max(), "min/max are the extremes");
}

// ---------------------------------------------------------------- wall clock
/// get_cached_millis with an arbitrary wall clock reading and an arbitrary cache content never
/// panics, and returns either the cached value or the reading in ms since the epoch.
#[kani::proof]
#[kani::unwind(4)]
#[kani::stub(std::time::SystemTime::now, systime_now_stub)]
fn c15_cached_millis_total() {
    let s: i64 = kani::any();
    let ns: u32 = kani::any();
    kani::assume(ns < 1_000_000_000);
    // layout check of mk_systime
    if s >= 0 {
        let d = mk_systime(s, ns).duration_since(UNIX_EPOCH);
        assert!(matches!(d, Ok(x) if x.as_secs() == s as u64 && x.subsec_nanos() == ns), "mk_systime layout");
    }
    unsafe {
        WALL_S = s;
        WALL_NS = ns;
    }
    // cache content: anything a previous call can have left there (reading cs/cns >= epoch)
    let c_ms: u64 = kani::any();
    let cs: i64 = kani::any();
    let cns: u32 = kani::any();
    kani::assume(cs >= 0 && cns < 1_000_000_000);
    CACHED_TIME.with(|c| unsafe {
        *c.get() = (c_ms, mk_systime(cs, cns));
    });
    let got = get_cached_millis();
    kani::cover!(got == c_ms, "cached value used");
    kani::cover!(got != c_ms, "cache refreshed");
    if got != c_ms {
        assert!(s >= 0, "refresh only from a reading after the epoch");
        // (`as u64` truncation of the u128 millisecond count only matters 584 million years from now)
        assert!(got == ((s as u128) * 1000 + (ns / 1_000_000) as u128) as u64, "refreshed value is the reading in ms");
    }
}

// ---------------------------------------------------------------- XADD *
/// XADD * from an arbitrary valid stream (1 present entry, arbitrary last_id >= it, arbitrary
/// wall clock): the new ID is greater than last_id (hence than every ID ever added), becomes
/// last_id in all three copies, and the entry is appended.
fn auto_id(kf_region: bool) {
    let (ids, last) = any_sorted_ids::<1>();
    let now_ms: u64 = kani::any();
    unsafe {
        NOW_MS = now_ms;
    }
    // region of the known finding: sequence exhausted within the current (or a future) millisecond
    let r = last.seq() == u64::MAX && now_ms <= last.millis();
    kani::assume(r == kf_region);
    let s = ManuallyDrop::new(mk_stream_ids(&ids, last));
    let f: u8 = kani::any();
    let v: u8 = kani::any();
    let mut m = HashMap::new();
    m.insert(vec![f], vec![v]);
    kani::cover!(true, "region reachable");
    let id = s.add_auto(m);
    kani::cover!(kf_region || (id.millis() == now_ms && id.seq() == 0), "fresh millisecond");
    kani::cover!(kf_region || (id.millis() == last.millis() && id.seq() > 0), "same millisecond, sequence incremented");
    kani::cover!(kf_region || now_ms < last.millis(), "wall clock behind the last ID");
    assert!(id > last, "XADD * returns an ID greater than every ID ever added");
    check_state(&s, &[ids[0], id], id);
    let d = s.data.lock().unwrap();
    assert!(d.entries[1].fields.len() == 1, "entry keeps its field-value pair");
    assert!(matches!(d.entries[1].fields.get(&vec![f]), Some(x) if x.len() == 1 && x[0] == v), "entry keeps its field-value pair");
    drop(d);
}
state_harness!(c15_auto_id_rest, 4, {
    auto_id(false);
});
state_harness!(c15_auto_id_kf, 4, {
    auto_id(true);
});

/// XADD * on an empty stream whose last_id is arbitrary (emptied by XDEL/XTRIM, or new: 0-0).
state_harness!(c15_auto_id_emptied, 4, {
    let (ids, last) = any_sorted_ids::<0>();
    let now_ms: u64 = kani::any();
    unsafe {
        NOW_MS = now_ms;
    }
    kani::assume(!(last.seq() == u64::MAX && now_ms <= last.millis()));
    let s = ManuallyDrop::new(mk_stream_ids(&ids, last));
    let id = s.add_auto(HashMap::new());
    kani::cover!(last.packed == 0, "new stream");
    kani::cover!(last.packed != 0 && now_ms < last.millis(), "emptied stream, clock behind");
    assert!(id > last, "XADD * on an emptied stream returns an ID greater than every ID ever added");
    check_state(&s, &[id], id);
});

// ---------------------------------------------------------------- XADD <id>
/// explicit ID: <= last_id refused without effect; otherwise appended and becomes last_id.
state_harness!(c15_add_explicit, 5, {
    let (ids, last) = any_sorted_ids::<2>();
    let s = ManuallyDrop::new(mk_stream_ids(&ids, last));
    let id = any_id();
    let f: u8 = kani::any();
    let v: u8 = kani::any();
    let mut m = HashMap::new();
    m.insert(vec![f], vec![v]);
    let mem0 = s.memory_usage();
    let r = s.add_with_id(id, m);
    kani::cover!(r.is_ok(), "accepted");
    kani::cover!(r.is_err() && id == ids[0], "refused: equal to a present ID");
    kani::cover!(r.is_err() && id > ids[1], "refused: above all present IDs but not above last_id (deleted top)");
    if id <= last {
        assert!(r.is_err(), "explicit ID not greater than the last one is refused");
        check_state(&s, &[ids[0], ids[1]], last);
        assert!(s.memory_usage() == mem0, "refused XADD leaves the memory counter unchanged");
    } else {
        assert!(r.is_ok(), "explicit ID greater than the last one is accepted");
        check_state(&s, &[ids[0], ids[1], id], id);
        let d = s.data.lock().unwrap();
        assert!(matches!(d.entries[2].fields.get(&vec![f]), Some(x) if x.len() == 1 && x[0] == v), "entry keeps its field-value pair");
        drop(d);
    }
});

// ---------------------------------------------------------------- ranges
/// XRANGE / XREVRANGE model: present entries with start <= id <= end, in (reverse) order, first `count`.
fn range_check<const N: usize>(reverse: bool, kf_region: Option<bool>) {
    let (ids, last) = any_sorted_ids::<N>();
    let s = ManuallyDrop::new(mk_stream_ids(&ids, last));
    let start = any_id();
    let end = any_id();
    let count: Option<usize> = kani::any();
    if let Some(kf) = kf_region {
        // region of the known finding: no present ID <= end, and start <= first present ID
        let r = N > 0 && end < ids[0] && start <= ids[0];
        kani::assume(r == kf);
    }
    let got = ManuallyDrop::new(s.range(&start, &end, count, reverse));
    let mut exp = [StreamId { packed: 0 }; N];
    let mut m = 0;
    let mut k = 0;
    while k < N {
        let i = if reverse { N - 1 - k } else { k };
        let id = ids[i];
        if start <= id && id <= end && (match count { Some(c) => m < c, None => true }) {
            exp[m] = id;
            m += 1;
        }
        k += 1;
    }
    // (covers that do not apply to a shape are made trivially true there, so that every cover
    //  of every harness is satisfiable and an unsatisfied one always signals vacuity)
    let kf = kf_region == Some(true);
    kani::cover!(kf || m == N, "all entries selected");
    kani::cover!(kf || N == 0 || (m == 0 && start <= end), "nothing selected although start <= end");
    kani::cover!(kf || N < 2 || (m == 1 && count == Some(1) && start < ids[0] && end > ids[N - 1]), "COUNT limits the reply");
    kani::cover!(kf || N < 3 || (m == 1 && ids[0] < start && end < ids[2]), "bounds strictly between entries");
    assert!(got.entries.len() == m, "range reply: number of entries");
    let mut i = 0;
    while i < m {
        assert!(got.entries[i].id == exp[i], "range reply: entries within bounds, in order");
        i += 1;
    }
    check_state(&s, &ids, last);
}
state_harness!(c15_range_fwd_n3_rest, 5, {
    range_check::<3>(false, Some(false));
});
state_harness!(c15_range_fwd_n3_kf, 5, {
    range_check::<3>(false, Some(true));
});
state_harness!(c15_range_rev_n3_rest, 5, {
    range_check::<3>(true, Some(false));
});
state_harness!(c15_range_rev_n3_kf, 5, {
    range_check::<3>(true, Some(true));
});
state_harness!(c15_range_n0_emptied, 5, {
    let rev: bool = kani::any();
    range_check::<0>(rev, None);
});
state_harness!(c15_range_fwd_n1_rest, 5, {
    range_check::<1>(false, Some(false));
});

/// exact clone for entries holding exactly one 1-byte field with a 1-byte value (asserted);
/// all sizes concrete (see entry_clone_nofields for the reason)
fn entry_clone_onepair(e: &StreamEntry) -> StreamEntry {
    assert!(e.fields.len() == 1, "harness shape: entries with exactly one pair");
    let mut m = HashMap::new();
    for (k, v) in e.fields.iter() {
        assert!(k.len() == 1 && v.len() == 1, "harness shape: 1-byte field and value");
        m.insert(vec![k[0]], vec![v[0]]);
    }
    StreamEntry { id: e.id, fields: m }
}
/// a range reply carries the stored field-value pair of each selected entry
#[kani::proof]
#[kani::unwind(5)]
#[kani::stub(std::vec::Vec::new, vec_new_cap4)]
#[kani::stub(std::vec::Vec::push, vec_push_nogrow)]
#[kani::stub(<StreamEntry as std::clone::Clone>::clone, entry_clone_onepair)]
fn c15_range_fields() {
    let (ids, last) = any_sorted_ids::<2>();
    let f: [u8; 2] = kani::any();
    let v: [u8; 2] = kani::any();
    let s = ManuallyDrop::new(mk_stream(vec![ent1(ids[0], f[0], v[0]), ent1(ids[1], f[1], v[1])], last));
    let start = any_id();
    let end = any_id();
    kani::assume(!(end < ids[0] && start <= ids[0])); // region of the known finding (c15_range_*_kf)
    let got = ManuallyDrop::new(s.range(&start, &end, None, false));
    let mut m = 0;
    let mut k = 0;
    while k < 2 {
        if start <= ids[k] && ids[k] <= end {
            assert!(m < got.entries.len(), "selected entry present in the reply");
            assert!(got.entries[m].id == ids[k], "order");
            assert!(got.entries[m].fields.len() == 1, "one pair");
            assert!(matches!(got.entries[m].fields.get(&vec![f[k]]), Some(x) if x.len() == 1 && x[0] == v[k]), "entry keeps its field-value pair");
            m += 1;
        }
        k += 1;
    }
    kani::cover!(m == 2, "both selected");
    kani::cover!(m == 1 && start > ids[0], "only the second selected");
    assert!(got.entries.len() == m, "nothing else in the reply");
}

/// XREAD model: present entries with id > after, in order, first `count`.
fn range_after_check<const N: usize>() {
    let (ids, last) = any_sorted_ids::<N>();
    let s = ManuallyDrop::new(mk_stream_ids(&ids, last));
    let after = any_id();
    let count: Option<usize> = kani::any();
    let got = ManuallyDrop::new(s.range_after(&after, count));
    let mut exp = [StreamId { packed: 0 }; N];
    let mut m = 0;
    let mut k = 0;
    while k < N {
        let id = ids[k];
        if id > after && (match count { Some(c) => m < c, None => true }) {
            exp[m] = id;
            m += 1;
        }
        k += 1;
    }
    kani::cover!(m == N, "all entries selected");
    kani::cover!(m == 0 && N > 0 && count.is_none(), "nothing after");
    kani::cover!(N >= 3 && m == 1 && count == Some(1) && after == ids[0], "after a present ID, COUNT 1");
    kani::cover!(N >= 3 && m == 1 && count.is_none() && after > ids[1] && after < ids[2], "after an absent ID between entries");
    assert!(got.entries.len() == m, "range_after reply: number of entries");
    let mut i = 0;
    while i < m {
        assert!(got.entries[i].id == exp[i], "range_after reply: entries after the ID, in order");
        i += 1;
    }
    check_state(&s, &ids, last);
}
state_harness!(c15_range_after_n3, 5, {
    range_after_check::<3>();
});

// ---------------------------------------------------------------- XDEL / XTRIM
// (no container stubs here: removals do not push, and CBMC copes with the symbolic-size memmove)
/// XDEL with K arbitrary IDs (present, absent, equal): exactly those entries disappear, reply
/// counts them once, XLEN agrees, last_id (all copies) is unchanged.
fn delete_check<const N: usize, const K: usize>() {
    let (ids, last) = any_sorted_ids::<N>();
    let s = ManuallyDrop::new(mk_stream_ids(&ids, last));
    let mut del = [StreamId { packed: 0 }; K];
    let mut j = 0;
    while j < K {
        del[j] = any_id();
        j += 1;
    }
    let n = s.delete(&del);
    let mut exp = [StreamId { packed: 0 }; N];
    let mut m = 0;
    let mut k = 0;
    while k < N {
        let mut hit = false;
        let mut j = 0;
        while j < K {
            if ids[k] == del[j] {
                hit = true;
            }
            j += 1;
        }
        if !hit {
            exp[m] = ids[k];
            m += 1;
        }
        k += 1;
    }
    kani::cover!(m + K == N || (K > N && m == 0), "every argument hit a different entry");
    kani::cover!(K < 2 || (m + 1 == N && del[0] == del[K - 1]), "same ID twice counts once");
    kani::cover!(m == N, "nothing deleted");
    kani::cover!(m + 1 == N && del[0] == ids[N - 1], "top entry deleted");
    assert!(n == N - m, "XDEL reply == number of entries removed");
    check_state(&s, &exp[..m], last);
    let d = s.data.lock().unwrap();
    assert!(d.memory_usage >= std::mem::size_of::<StreamData>(), "memory counter did not underflow");
    drop(d);
}
#[kani::proof]
#[kani::unwind(4)]
fn c15_delete_one_n3() {
    delete_check::<3, 1>();
}
#[kani::proof]
#[kani::unwind(4)]
#[kani::stub(std::ptr::copy, ptr_copy_elementwise)]
fn c15_delete_two_n2() {
    delete_check::<2, 2>();
}

/// XTRIM MAXLEN n on 3 entries, every n: the oldest entries go, the newest min(n, 3) stay;
/// last_id unchanged.
#[kani::proof]
#[kani::unwind(4)]
fn c15_trim_count_n3() {
    let (ids, last) = any_sorted_ids::<3>();
    let s = ManuallyDrop::new(mk_stream_ids(&ids, last));
    let max: usize = kani::any();
    let n = s.trim_by_count(max);
    let keep = if max < 3 { max } else { 3 };
    kani::cover!(keep == 0, "trimmed to empty");
    kani::cover!(keep == 2, "one trimmed");
    kani::cover!(keep == 3, "nothing trimmed");
    assert!(n == 3 - keep, "XTRIM reply == number of entries removed");
    check_state(&s, &ids[3 - keep..], last);
}

/// trim by minimum ID: exactly the entries below min_id go; last_id unchanged.
#[kani::proof]
#[kani::unwind(4)]
fn c15_trim_minid_n3() {
    let (ids, last) = any_sorted_ids::<3>();
    let s = ManuallyDrop::new(mk_stream_ids(&ids, last));
    let min = any_id();
    let n = s.trim_by_min_id(&min);
    let mut gone = 0;
    while gone < 3 && ids[gone] < min {
        gone += 1;
    }
    kani::cover!(gone == 3, "trimmed to empty");
    kani::cover!(gone == 1 && min == ids[1], "min_id equal to a present ID keeps it");
    kani::cover!(gone == 0, "nothing trimmed");
    assert!(n == gone, "reply == number of entries removed");
    check_state(&s, &ids[gone..], last);
}

// ---------------------------------------------------------------- C16: XREADGROUP cursor
/// XREADGROUP ... > on a stream with N entries and a group whose cursor is arbitrary: the reply
/// is exactly the entries after the cursor, in order (first COUNT), and the cursor advances to
/// the last delivered ID (or stays when nothing is delivered) - also with NOACK.
/// Region of the known finding: NOACK and at least one entry delivered.
fn readgroup_check<const N: usize>(noack: bool, kf_region: Option<bool>) {
    let (ids, last) = any_sorted_ids::<N>();
    let s = ManuallyDrop::new(mk_stream_ids(&ids, last));
    let made = s.consumer_groups.create_group(String::from("g"), StreamId::new(0, 0));
    assert!(made.is_ok(), "group created");
    let g = ManuallyDrop::new(s.consumer_groups.get_group("g"));
    let g = match &*g {
        Some(g) => g,
        None => {
            assert!(false, "group can be looked up");
            return;
        }
    };
    let cursor = any_id();
    g.set_id(cursor);
    let count: Option<usize> = kani::any();
    let mut exp = [StreamId { packed: 0 }; N];
    let mut m = 0;
    let mut k = 0;
    while k < N {
        if ids[k] > cursor && (match count { Some(c) => m < c, None => true }) {
            exp[m] = ids[k];
            m += 1;
        }
        k += 1;
    }
    if let Some(kf) = kf_region {
        kani::assume((m > 0) == kf);
    }
    let r = ManuallyDrop::new(s.read_group("g", "a", StreamId::max(), count, noack));
    let kfh = kf_region == Some(true);
    kani::cover!(kfh || m == 0, "nothing new");
    kani::cover!(kf_region == Some(false) || m == N, "everything delivered");
    match &*r {
        Ok(v) => {
            assert!(v.len() == m, "XREADGROUP > reply: number of entries");
            let mut i = 0;
            while i < m {
                assert!(v[i].id == exp[i], "XREADGROUP > reply: exactly the entries after the cursor, in order");
                i += 1;
            }
        }
        Err(_) => assert!(false, "XREADGROUP on an existing group fails"),
    }
    let want = if m > 0 { exp[m - 1] } else { cursor };
    assert!(g.get_last_id() == want, "cursor == last delivered ID (unchanged when nothing was delivered)");
    let total = *g.total_pending.lock().unwrap();
    assert!(total == if noack { 0 } else { m }, "total_pending == number of entries delivered without NOACK");
}
macro_rules! rg_harness {
    ($name:ident, $body:expr) => {
        #[kani::proof]
        #[kani::unwind(5)]
        #[kani::stub(std::vec::Vec::new, vec_new_cap4)]
        #[kani::stub(std::vec::Vec::push, vec_push_nogrow)]
        #[kani::stub(<StreamEntry as std::clone::Clone>::clone, entry_clone_nofields)]
        #[kani::stub(std::time::SystemTime::now, systime_now_stub)]
        #[kani::stub(alloc::fmt::format, fmt_stub)]
        fn $name() {
            $body
        }
    };
}
rg_harness!(c16_readgroup_noack_rest, {
    readgroup_check::<2>(true, Some(false));
});
rg_harness!(c16_readgroup_noack_kf, {
    readgroup_check::<2>(true, Some(true));
});
// (the acknowledging path - read_group + add_pending - ran CBMC out of memory even for one entry)
