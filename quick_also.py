# secondary properties pick a few harnesses for their quick tier (the rest run in thorough)
QUICK_ALSO = {
    "C08": ["c01_append_str", "c01_delete_str", "c01_set_list", "c01_incrby_int", "c03_lindex_lset_n3", "c03_rpush_n2", "c03_set_sadd",
            "c02_expire_persist_ttl", "c02_sweepstep_ttl_idx", "c01_rename_same_shard", "c01_rename_over_existing"],
    "C06": ["c03_sinter_missing", "c01_getrange_len3", "c01_getrange_len0", "c03_lrange_n3", "c20_total_bulk", "c20_total_simple", "c20_alloc_array",
            "c15_xadd_idbytes_rest", "c15_id_parse_rest", "c10_alloc_read_string_kf", "c04_byrank_h213"],
    "C05": ["c20_rt_bulk", "c20_rt_line_types", "c20_prefix_off_inline_p", "c20_prefix_simple", "c06_handler_index_bounds"],
    "C02": ["c01_rename_same_shard", "c01_rename_same_name_present", "c06_expire_any_duration"],
    "C18": ["c08_flushdb_watch"],
    "C11": ["c20_rt_bulk"],
    "C01": ["c08_flushdb_watch", "c04_zadd_atomic", "c06_engine_arith_overflow", "c06_reservation_bounded"],
    "C03": ["c06_engine_arith_overflow"],
    "C13": ["c11_wakeup_pop_logged"],
    "C10": ["c09_lencodec_u32", "c09_strcodec_0to3", "c06_reservation_bounded"],
    "C07": ["c18_db_arg_exec"],
}
